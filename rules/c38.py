"""C38 GVCF/VDS combiner merges every input exactly once - checkpoint completeness and genome partitioning.

Decided from the syntax trees of hail/python/hail/vds/combiner/{variant_dataset_combiner,combine}.py (nothing is run):
  R1  every attribute a step function (step/_step_gvcfs/_step_vdses and the self-methods they call) mutates is a declared slot, and
      is serialised unless it is on the frozen list of deliberately transient slots
  R2  the saved plan is complete and loadable: every serialised slot is written by `to_dict` under the name of the `__init__`
      parameter that restores it, every key is an `__init__` parameter, required parameters are all written, and every value
      `to_dict` transforms has its inverse in `Decoder._object_hook` (or is normalised by `__init__`)
  R3  `run` saves before every `step` and after the last one; `save`/`load` go through Encoder -> to_dict and
      Decoder -> _object_hook -> VariantDatasetCombiner(**obj)
  R4  `calculate_even_genome_partitioning`: for every contig length and interval size of the evaluated domain the extracted loop
      emits closed intervals that cover every base 1..L exactly once
  R5  ... and no interval is longer than the requested size
R4/R5 evaluate the *extracted* statements of `calc_parts` with our own exact-integer interpreter, exhaustively over
1 <= L, S <= 80 (200 in the thorough tier), on the mitochondrial contigs of GRCh37/GRCh38 for sizes 100..200, and on a few
probe points on large real contigs.  Findings are keyed by failure kind (last base uncovered / gap / overlap / too long ...).
Does not decide: termination of the merge plan, the merge arithmetic itself, what the engine does with the intervals.
"""
from __future__ import annotations

import ast
import json
from fractions import Fraction
from typing import Dict, List, Optional, Set, Tuple

from engines import pyfacts as pf
from engines.common import AnalysisError, Ctx, read_repo

META = dict(
    category='other',
    text='Reader/writer agreement of the combiner\'s saved plan (slots <-> to_dict <-> __init__ <-> decoder hook), save-before-step dominance in '
         'run, and an exhaustive small-domain evaluation (6400 (length, size) pairs + real mitochondrial contigs) of the extracted partitioning '
         'loop by our own exact-integer interpreter. Structural necessary conditions; the merge itself needs the engine, hence "other".',
    note='Trusted: CPython ast; the 40-line interpreter in this module (exact rationals for `/`, so float rounding of math.ceil(L / S) is not modelled). '
         'Not decided: termination, merge arithmetic, engine behaviour.',
    technique='static analysis: slot/def-use tables, CFG dominance, abstract evaluation of an extracted loop over a finite domain',
    design_ref='DESIGN.md §3 C38',
)

F = 'hail/python/hail/vds/combiner/variant_dataset_combiner.py'
FC = 'hail/python/hail/vds/combiner/combine.py'
CLS = 'VariantDatasetCombiner'

# slots that are deliberately not part of the saved plan (frozen, with reason)
TRANSIENT_OK = {
    '_uuid': 'fresh per process; only names temporary output directories',
    '_job_id': 'only used in log lines and temporary directory names (together with the fresh _uuid)',
    '__intervals_cache': 'memo of calculate_new_intervals results; recomputed on demand after a reload',
}
MUTATORS = {'append', 'extend', 'insert', 'pop', 'remove', 'clear', 'update', 'add', 'discard', 'sort', 'reverse', 'setdefault', 'popitem'}
STEP_ROOTS = ['step', '_step_gvcfs', '_step_vdses']
# (reference, contig, interval size) points additionally evaluated on real contig lengths (the verdict is computed, not assumed)
PROBES = [('GRCh38', 'chr17', 10470), ('GRCh38', 'chr10', 50000), ('GRCh37', '13', 12591)]
# keys whose JSON form is produced by Encoder.default rather than by to_dict itself
ENCODER_TYPED = {'dataset_type': 'CombinerOutType of tmatrix (Encoder.default -> tmatrix.to_dict)', 'gvcf_type': 'tmatrix (Encoder.default -> to_dict)'}


def _str_list(e: ast.AST, where: str, env: Dict[str, List[str]]) -> List[str]:
    """Evaluate a literal list/tuple of strings, allowing `*name` splices and tuple([...])."""
    if isinstance(e, ast.Call) and pf.dotted(e.func) in ('tuple', 'list') and len(e.args) == 1:
        return _str_list(e.args[0], where, env)
    if isinstance(e, (ast.List, ast.Tuple)):
        out: List[str] = []
        for x in e.elts:
            if isinstance(x, ast.Constant) and isinstance(x.value, str):
                out.append(x.value)
            elif isinstance(x, ast.Starred) and isinstance(x.value, ast.Name) and x.value.id in env:
                out += env[x.value.id]
            else:
                raise AnalysisError(f'{where}: unrecognised slot list element `{pf.nsrc(x)}`')
        return out
    if isinstance(e, ast.BinOp) and isinstance(e.op, ast.Add):
        return _str_list(e.left, where, env) + _str_list(e.right, where, env)
    if isinstance(e, ast.Name) and e.id in env:
        return list(env[e.id])
    raise AnalysisError(f'{where}: unrecognised slot list `{pf.nsrc(e)}`')


def _class_assign(cls: ast.ClassDef, name: str) -> ast.expr:
    for st in cls.body:
        if isinstance(st, ast.Assign) and len(st.targets) == 1 and isinstance(st.targets[0], ast.Name) and st.targets[0].id == name:
            return st.value
        if isinstance(st, ast.AnnAssign) and isinstance(st.target, ast.Name) and st.target.id == name and st.value is not None:
            return st.value
    raise AnalysisError(f'anchor vanished: {CLS}.{name}')


def _self_attr_root(e: ast.AST) -> Optional[str]:
    """self.X, self.X[...], self.X[...][...] -> X"""
    while isinstance(e, ast.Subscript):
        e = e.value
    if isinstance(e, ast.Attribute) and isinstance(e.value, ast.Name) and e.value.id == 'self':
        return e.attr
    return None


def _mutations(fn: pf.FuncDef) -> List[Tuple[str, ast.AST, str]]:
    out: List[Tuple[str, ast.AST, str]] = []
    for n in pf.walk_shallow(fn):
        if isinstance(n, ast.Assign):
            for t in n.targets:
                for x in ([t] if not isinstance(t, (ast.Tuple, ast.List)) else t.elts):
                    a = _self_attr_root(x)
                    if a:
                        out.append((a, n, 'assigned'))
        elif isinstance(n, (ast.AugAssign, ast.AnnAssign)):
            a = _self_attr_root(n.target)
            if a:
                out.append((a, n, 'assigned'))
        elif isinstance(n, ast.Delete):
            for t in n.targets:
                a = _self_attr_root(t)
                if a:
                    out.append((a, n, 'deleted from'))
        elif isinstance(n, ast.Call) and isinstance(n.func, ast.Attribute) and n.func.attr in MUTATORS:
            a = _self_attr_root(n.func.value)
            if a:
                out.append((a, n, f'mutated by .{n.func.attr}()'))
    return out


def _reads(fn: ast.AST) -> Set[str]:
    return {n.attr for n in ast.walk(fn) if isinstance(n, ast.Attribute) and isinstance(n.value, ast.Name) and n.value.id == 'self'}


def _methods(cls: ast.ClassDef) -> Dict[str, pf.FuncDef]:
    out: Dict[str, pf.FuncDef] = {}
    for st in cls.body:
        if isinstance(st, (ast.FunctionDef, ast.AsyncFunctionDef)):
            out.setdefault(st.name, st)
    return out


def _step_closure(methods: Dict[str, pf.FuncDef]) -> List[str]:
    seen: List[str] = []
    work = list(STEP_ROOTS)
    while work:
        m = work.pop(0)
        if m in seen:
            continue
        if m not in methods:
            if m in STEP_ROOTS:
                raise AnalysisError(f'anchor vanished: {CLS}.{m}')
            continue
        seen.append(m)
        for c in pf.calls_in(methods[m], into_nested_defs=True):
            if isinstance(c.func, ast.Attribute) and isinstance(c.func.value, ast.Name) and c.func.value.id == 'self' and c.func.attr in methods:
                work.append(c.func.attr)
        # properties read on self (e.g. self.finished, self._num_vdses)
        for a in _reads(methods[m]):
            if a in methods and a not in seen:
                work.append(a)
    return seen


# ---------------------------------------------------------------------------------------------------------------------------
def check_slots(ctx: Ctx, m: pf.Module, cls: ast.ClassDef) -> Tuple[List[str], List[str]]:
    env: Dict[str, List[str]] = {}
    ser = _str_list(_class_assign(cls, '__serialized_slots__'), f'{F}::{CLS}.__serialized_slots__', env)
    env['__serialized_slots__'] = ser
    slots = _str_list(_class_assign(cls, '__slots__'), f'{F}::{CLS}.__slots__', env)
    ctx.need(len(ser) >= 10 and set(ser) <= set(slots), '__serialized_slots__ is not a subset of __slots__')
    methods = _methods(cls)
    closure = _step_closure(methods)
    ctx.unit('functions', len(closure))
    seen: Set[str] = set()
    for meth in closure:
        for attr, node, how in _mutations(methods[meth]):
            if attr in seen:
                continue
            seen.add(attr)
            cons = f'{F}::{CLS}.{meth}::self.{attr}'
            line = getattr(node, 'lineno', 0)
            if attr not in slots:
                ctx.bad('R1', cons, f'`self.{attr}` is {how} in {meth} but is not a declared slot: the state it carries cannot be part of the saved plan', m.path, line)
            elif attr in ser:
                ctx.ok('R1', cons, 'serialised')
            elif attr in TRANSIENT_OK:
                ctx.ok('R1', cons, {'transient': TRANSIENT_OK[attr]}, nontrivial=False)
            else:
                ctx.bad('R1', cons, f'`self.{attr}` is {how} by a combiner step ({meth}) but is not in __serialized_slots__: a plan saved after this step and '
                        f'reloaded restarts with the value from before the step (inputs are merged twice or dropped)', m.path, line)
    return ser, slots


def _dict_return(fn: pf.FuncDef, where: str) -> ast.Dict:
    rets = [n for n in pf.walk_shallow(fn) if isinstance(n, ast.Return)]
    if len(rets) != 1 or not isinstance(rets[0].value, ast.Dict):
        raise AnalysisError(f'{where}: expected a single `return {{...}}`')
    return rets[0].value


def check_roundtrip(ctx: Ctx, m: pf.Module, cls: ast.ClassDef, ser: List[str]) -> None:
    methods = _methods(cls)
    for need in ('to_dict', '__init__'):
        ctx.need(need in methods, f'anchor vanished: {CLS}.{need}')
    td = methods['to_dict']
    init = methods['__init__']
    d = _dict_return(td, f'{F}::{CLS}.to_dict')
    keys: Dict[str, ast.expr] = {}
    for k, v in zip(d.keys, d.values):
        if not (isinstance(k, ast.Constant) and isinstance(k.value, str)):
            raise AnalysisError(f'{F}::{CLS}.to_dict: non-literal key `{pf.nsrc(k) if k is not None else "**"}`')
        keys[k.value] = v
    ctx.need('name' in keys, 'to_dict has no `name` key')
    params = [a.arg for a in init.args.kwonlyargs] + [a.arg for a in init.args.args[1:]]
    required = [a.arg for a, dflt in zip(init.args.kwonlyargs, init.args.kw_defaults) if dflt is None]
    n_pos = len(init.args.args) - 1
    required += [a.arg for a in init.args.args[1:][: n_pos - len(init.args.defaults)]]
    ctx.need(init.args.kwarg is None and init.args.vararg is None, '__init__ takes *args/**kwargs')
    # which slot does each __init__ parameter initialise?
    slot_of_param: Dict[str, str] = {}
    param_of_slot: Dict[str, str] = {}
    wraps_set: Set[str] = set()
    for attr, node, _how in _mutations(init):
        if isinstance(node, ast.Assign) and _self_attr_root(node.targets[0]) == attr and isinstance(node.targets[0], ast.Attribute):
            used = [n.id for n in ast.walk(node.value) if isinstance(n, ast.Name) and n.id in params]
            if len(set(used)) == 1:
                slot_of_param.setdefault(used[0], attr)
                param_of_slot.setdefault(attr, used[0])
                if any(isinstance(c, ast.Call) and pf.dotted(c.func) in ('set', 'list', 'frozenset') for c in ast.walk(node.value)):
                    wraps_set.add(used[0])
    # `for vds in vdses: self._vdses[...].append(vds)`: parameter consumed through a loop
    for st in pf.walk_shallow(init):
        if isinstance(st, ast.For) and isinstance(st.iter, ast.Name) and st.iter.id in params:
            for attr, _n, _h in _mutations_in(st):
                slot_of_param.setdefault(st.iter.id, attr)
                param_of_slot[attr] = st.iter.id

    # (a) every serialised slot is written under the parameter that restores it
    for s in ser:
        cons = f'{F}::{CLS}.to_dict::{s}'
        p = param_of_slot.get(s)
        if p is None:
            raise AnalysisError(f'{cons}: cannot tell which __init__ parameter initialises the slot')
        v = keys.get(p)
        if v is None:
            readers = sorted(mn for mn in _step_closure(methods) if s in _reads(methods[mn]))
            dflt = _default_of(init, p)
            ctx.bad('R2', cons, f'serialised slot `{s}` (parameter `{p}`) has no key in to_dict: a plan that is saved and reloaded gets '
                    f'{p}={dflt if dflt is not None else "<missing: TypeError>"} whatever it was created with' + (f'; it is read by {readers}' if readers else ''),
                    m.path, td.lineno)
            continue
        rd = {n.attr for n in ast.walk(v) if isinstance(n, ast.Attribute) and isinstance(n.value, ast.Name) and n.value.id == 'self'}
        ctx.check(rd == {s}, 'R2', cons, f'to_dict writes key `{p}` from {sorted("self." + x for x in rd)} but __init__ restores parameter `{p}` into `self.{s}`: '
                  f'after a reload the plan continues with another field\'s value', m.path, v.lineno)
    # (b) every key is a parameter, (c) required parameters are written
    for k, v in keys.items():
        if k == 'name':
            ctx.check(pf.nsrc(v) in ('self.__class__.__name__', f'{CLS}.__name__', f"'{CLS}'"), 'R2', f'{F}::{CLS}.to_dict::name',
                      f'`name` is written as `{pf.nsrc(v)}`; the decoder recognises a plan by name == {CLS}.__name__', m.path, v.lineno)
            continue
        ctx.check(k in params, 'R2', f'{F}::{CLS}.to_dict::key {k}', f'to_dict writes key `{k}` which is not a parameter of __init__: '
                  f'{CLS}(**obj) raises TypeError on every reload', m.path, v.lineno)
    for p in required:
        ctx.check(p in keys, 'R2', f'{F}::{CLS}.__init__::required {p}', f'required parameter `{p}` is not written by to_dict: every reload raises TypeError', m.path, init.lineno)

    # (e) transformed values have an inverse
    dec = m.cls('Decoder')
    hook = _methods(dec).get('_object_hook')
    ctx.need(hook is not None, 'anchor vanished: Decoder._object_hook')
    rewrites: Dict[str, ast.expr] = {}
    for st in pf.walk_shallow(hook):
        if isinstance(st, ast.Assign) and len(st.targets) == 1 and isinstance(st.targets[0], ast.Subscript) and pf.nsrc(st.targets[0].value) == 'obj':
            sl = st.targets[0].slice
            if isinstance(sl, ast.Constant) and isinstance(sl.value, str):
                rewrites[sl.value] = st.value
    local_defs = pf.assignments(hook)
    for k, v in keys.items():
        if k == 'name':
            continue
        s = slot_of_param.get(k)
        plain = s is not None and pf.nsrc(v) == f'self.{s}'
        if plain and k not in ENCODER_TYPED:
            continue
        cons = f'{F}::Decoder._object_hook::{k}'
        if k in rewrites:
            rv = rewrites[k]
            # the rewritten value must be computed from obj[k] (possibly through one local)
            srcs = {pf.nsrc(n) for n in ast.walk(rv) if isinstance(n, ast.Subscript)}
            names = [n.id for n in ast.walk(rv) if isinstance(n, ast.Name)]
            for nm in names:
                for dv in local_defs.get(nm, []):
                    if isinstance(dv, ast.expr):
                        srcs |= {pf.nsrc(n) for n in ast.walk(dv) if isinstance(n, ast.Subscript)}
            ok = f"obj['{k}']" in srcs or any(isinstance(g, ast.comprehension) and pf.nsrc(g.iter) == f"obj['{k}']" for g in ast.walk(rv))
            inv = _inverse_ok(k, v, rv, local_defs)
            ctx.check(ok and inv is None, 'R2', cons, (inv or f'the decoder rewrites obj[\'{k}\'] from {sorted(srcs)} instead of from the saved value of `{k}`') +
                      ': the reloaded plan differs from the saved one', m.path, rv.lineno)
        elif k in wraps_set and not (k in ENCODER_TYPED):
            ctx.ok('R2', cons, 'normalised by __init__ (set(...))')
        else:
            ctx.bad('R2', cons, f'to_dict writes `{k}` as `{pf.nsrc(v)[:80]}` (not the raw field) but neither Decoder._object_hook nor __init__ converts it back',
                    m.path, v.lineno)
    for k, rv in rewrites.items():
        ctx.check(k in keys, 'R2', f'{F}::Decoder._object_hook::rewrites {k}', f'the decoder rewrites obj[\'{k}\'], which to_dict never writes: KeyError on every reload', m.path, rv.lineno)
    # the hook ends in CLS(**obj) after deleting 'name'
    calls = [c for c in pf.calls_in(hook) if pf.dotted(c.func) == CLS]
    ok = len(calls) == 1 and not calls[0].args and len(calls[0].keywords) == 1 and calls[0].keywords[0].arg is None and pf.nsrc(calls[0].keywords[0].value) == 'obj'
    dels = [pf.nsrc(t) for st in pf.walk_shallow(hook) if isinstance(st, ast.Delete) for t in st.targets]
    ctx.check(ok and "obj['name']" in dels, 'R2', f'{F}::Decoder._object_hook::constructs', f'the hook must delete obj[\'name\'] and return {CLS}(**obj)', m.path, hook.lineno)


def _mutations_in(node: ast.AST) -> List[Tuple[str, ast.AST, str]]:
    fake = ast.FunctionDef(name='_', args=ast.arguments(posonlyargs=[], args=[], kwonlyargs=[], kw_defaults=[], defaults=[]), body=[node], decorator_list=[])
    return _mutations(fake)  # type: ignore[arg-type]


def _default_of(init: pf.FuncDef, p: str) -> Optional[str]:
    for a, d in zip(init.args.kwonlyargs, init.args.kw_defaults):
        if a.arg == p and d is not None:
            return pf.nsrc(d)
    pos = init.args.args[1:]
    for a, d in zip(pos[len(pos) - len(init.args.defaults):], init.args.defaults):
        if a.arg == p:
            return pf.nsrc(d)
    return None


def _inverse_ok(k: str, wv: ast.expr, rv: ast.expr, local_defs) -> Optional[str]:
    """Recognised writer/reader pairs; returns a problem text or None."""
    w_calls = [pf.dotted(c.func) or pf.nsrc(c.func) for c in ast.walk(wv) if isinstance(c, ast.Call)]
    r_calls = [pf.dotted(c.func) or pf.nsrc(c.func) for c in ast.walk(rv) if isinstance(c, ast.Call)]
    for nm in [n.id for n in ast.walk(rv) if isinstance(n, ast.Name)]:
        for dv in local_defs.get(nm, []):
            if isinstance(dv, ast.expr):
                r_calls += [pf.dotted(c.func) or pf.nsrc(c.func) for c in ast.walk(dv) if isinstance(c, ast.Call)]
    if any(c.endswith('._convert_to_json') for c in w_calls):
        return None if any(c.endswith('._convert_from_json') for c in r_calls) else f'`{k}` is written with _convert_to_json but not read back with _convert_from_json'
    if 'str' in w_calls:
        return None if any(c.endswith('get_reference') for c in r_calls) else f'`{k}` is written as str(...) but not resolved back with hl.get_reference'
    if k in ENCODER_TYPED:
        return None if any(c.endswith('tmatrix._from_json') for c in r_calls) else f'`{k}` is encoded through tmatrix.to_dict but not decoded with tmatrix._from_json'
    if k == 'vdses':
        return None if 'VDSMetadata' in r_calls else '`vdses` is written as a list of tuples but not rebuilt as VDSMetadata'
    raise AnalysisError(f'{F}: unrecognised transformation of `{k}` in to_dict: `{pf.nsrc(wv)[:80]}`')


# ---------------------------------------------------------------------------------------------------------------------------
def _is_self_call(n: pf.Node, name: str) -> bool:
    return any(pf.dotted(c.func) == f'self.{name}' for c in pf.node_calls(n))


def check_run(ctx: Ctx, m: pf.Module, cls: ast.ClassDef) -> None:
    methods = _methods(cls)
    for need in ('run', 'save', 'load'):
        ctx.need(need in methods, f'anchor vanished: {CLS}.{need}')
    run = methods['run']
    g = pf.cfg(run)
    steps = g.find(lambda n: _is_self_call(n, 'step'))
    ctx.need(steps, f'{CLS}.run does not call self.step()')
    is_save = lambda n: _is_self_call(n, 'save')  # noqa: E731
    is_step = lambda n: _is_self_call(n, 'step')  # noqa: E731
    for s in steps:
        cons = f'{F}::{CLS}.run::self.step()'
        p = g.path_avoiding(g.entry, lambda n: n is s, is_save)
        p2 = None
        for s0 in steps:
            q = g.path_avoiding(s0, lambda n: n is s, is_save)
            if q is not None:
                p2 = q
        if p is not None:
            ctx.bad('R3', cons, 'a path reaches self.step() without a preceding self.save(): a crash during that step leaves no plan describing the inputs it consumed',
                    m.path, s.lineno, extra=[repr(x) for x in p])
        elif p2 is not None:
            ctx.bad('R3', cons, 'a second self.step() can run without a self.save() in between: the plan on disk is two steps old when the second step fails',
                    m.path, s.lineno, extra=[repr(x) for x in p2])
        else:
            ctx.ok('R3', cons, 'every path to step passes save after the previous step')
    # after the last step a save happens before normal exit
    cons = f'{F}::{CLS}.run::final save'
    bad = None
    for s in steps:
        p = g.path_avoiding(s, lambda n: n is g.exit, is_save, edge_ok=lambda a, b, lab: lab != 'exc')
        if p is not None:
            bad = p
    ctx.check(bad is None, 'R3', cons, 'run can return after a step without saving: the saved plan still lists inputs that were already merged, a later resume merges them twice',
              m.path, run.lineno, extra=[repr(x) for x in bad] if bad else None)
    # save -> json.dump(self, ..., cls=Encoder); Encoder.default -> o.to_dict()
    save = methods['save']
    dumps = [c for c in pf.calls_in(save) if pf.dotted(c.func) == 'json.dump']
    ok = bool(dumps) and all(c.args and pf.nsrc(c.args[0]) == 'self' and any(k.arg == 'cls' and pf.nsrc(k.value) == 'Encoder' for k in c.keywords) for c in dumps)
    ctx.check(ok, 'R3', f'{F}::{CLS}.save::json.dump', 'save must dump `self` with cls=Encoder', m.path, save.lineno)
    enc = _methods(m.cls('Encoder')).get('default')
    ctx.need(enc is not None, 'anchor vanished: Encoder.default')
    ok = False
    for st in enc.body:
        if isinstance(st, ast.If) and pf.nsrc(st.test) == f'isinstance(o, {CLS})' and len(st.body) == 1 and isinstance(st.body[0], ast.Return) \
                and pf.nsrc(st.body[0].value) == 'o.to_dict()':
            ok = True
            break
        if isinstance(st, ast.If):
            continue
    ctx.check(ok, 'R3', f'{F}::Encoder.default', f'Encoder.default must serialise a {CLS} through o.to_dict()', m.path, enc.lineno)
    load = methods['load']
    loads = [c for c in pf.calls_in(load) if pf.dotted(c.func) == 'json.load']
    ok = len(loads) == 1 and any(k.arg == 'cls' and pf.nsrc(k.value) == 'Decoder' for k in loads[0].keywords)
    dinit = _methods(m.cls('Decoder')).get('__init__')
    ok2 = dinit is not None and any(any(k.arg == 'object_hook' and pf.nsrc(k.value) == 'Decoder._object_hook' for k in c.keywords) for c in pf.calls_in(dinit))
    ctx.check(ok and ok2, 'R3', f'{F}::{CLS}.load::json.load', 'load must read the plan with cls=Decoder and Decoder must install _object_hook', m.path, load.lineno)


# ---------------------------------------------------------------------------------------------------------------------------
# partitioning: tiny exact interpreter for the extracted statements
# ---------------------------------------------------------------------------------------------------------------------------
class _Interp:
    def __init__(self, where: str, emit_name: str, list_name: str):
        self.where = where
        self.emit_name = emit_name
        self.list_name = list_name
        self.out: List[Tuple[int, int]] = []
        self.steps = 0

    def ev(self, e: ast.AST, env: Dict[str, object]):
        if isinstance(e, ast.Constant) and isinstance(e.value, int) and not isinstance(e.value, bool):
            return e.value
        if isinstance(e, ast.Name):
            if e.id not in env:
                raise AnalysisError(f'{self.where}: unbound name {e.id}')
            return env[e.id]
        if isinstance(e, ast.BinOp):
            a, b = self.ev(e.left, env), self.ev(e.right, env)
            if isinstance(e.op, ast.Add):
                return a + b
            if isinstance(e.op, ast.Sub):
                return a - b
            if isinstance(e.op, ast.Mult):
                return a * b
            if isinstance(e.op, ast.FloorDiv):
                return a // b
            if isinstance(e.op, ast.Div):
                return Fraction(a) / Fraction(b)
            raise AnalysisError(f'{self.where}: unsupported operator in `{pf.nsrc(e)}`')
        if isinstance(e, ast.Call):
            d = pf.dotted(e.func)
            args = [self.ev(a, env) for a in e.args]
            if d in ('math.ceil', 'ceil') and len(args) == 1:
                x = Fraction(args[0])
                return -((-x.numerator) // x.denominator)
            if d in ('math.floor', 'floor', 'int') and len(args) == 1:
                x = Fraction(args[0])
                return x.numerator // x.denominator
            if d == 'min' and len(args) >= 2:
                return min(args)
            if d == 'max' and len(args) >= 2:
                return max(args)
            raise AnalysisError(f'{self.where}: unsupported call `{pf.nsrc(e)}`')
        raise AnalysisError(f'{self.where}: unsupported expression `{pf.nsrc(e)}`')

    def test(self, e: ast.AST, env) -> bool:
        if isinstance(e, ast.Compare) and len(e.ops) == 1:
            a, b = self.ev(e.left, env), self.ev(e.comparators[0], env)
            op = e.ops[0]
            for t, f in ((ast.Lt, a < b), (ast.LtE, a <= b), (ast.Gt, a > b), (ast.GtE, a >= b), (ast.Eq, a == b), (ast.NotEq, a != b)):
                if isinstance(op, t):
                    return f
        raise AnalysisError(f'{self.where}: unsupported test `{pf.nsrc(e)}`')

    def run(self, stmts, env) -> None:
        for st in stmts:
            self.steps += 1
            if self.steps > 200000:
                raise AnalysisError(f'{self.where}: extracted loop does not terminate within the step budget')
            if isinstance(st, ast.Assign) and len(st.targets) == 1 and isinstance(st.targets[0], ast.Name):
                if isinstance(st.value, ast.List) and not st.value.elts:
                    continue  # intervals = []
                env[st.targets[0].id] = self.ev(st.value, env)
            elif isinstance(st, ast.AugAssign) and isinstance(st.target, ast.Name) and isinstance(st.op, (ast.Add, ast.Sub)):
                v = self.ev(st.value, env)
                env[st.target.id] = env[st.target.id] + v if isinstance(st.op, ast.Add) else env[st.target.id] - v  # type: ignore[operator]
            elif isinstance(st, ast.While):
                while self.test(st.test, env):
                    self.run(st.body, env)
            elif isinstance(st, ast.If):
                self.run(st.body if self.test(st.test, env) else st.orelse, env)
            elif (isinstance(st, ast.Expr) and isinstance(st.value, ast.Call) and pf.dotted(st.value.func) == f'{self.list_name}.append'
                  and len(st.value.args) == 1 and isinstance(st.value.args[0], ast.Call) and pf.dotted(st.value.args[0].func) == self.emit_name
                  and len(st.value.args[0].args) == 2):
                a, b = (self.ev(x, env) for x in st.value.args[0].args)
                self.out.append((a, b))  # type: ignore[arg-type]
            elif isinstance(st, ast.Return):
                return
            elif isinstance(st, (ast.FunctionDef,)):
                continue
            else:
                raise AnalysisError(f'{self.where}: unsupported statement `{pf.nsrc(st)[:80]}`')


def _partition_model(ctx: Ctx, mc: pf.Module):
    fn = mc.func('calculate_even_genome_partitioning')
    calc = mc.func('calculate_even_genome_partitioning.calc_parts')
    where = f'{FC}::calculate_even_genome_partitioning.calc_parts'
    size_param = fn.args.args[1].arg
    # the interval constructor: closedness
    li = mc.func('calculate_even_genome_partitioning.calc_parts.locus_interval')
    rets = [n for n in pf.walk_shallow(li) if isinstance(n, ast.Return)]
    ctx.need(len(rets) == 1 and isinstance(rets[0].value, ast.Call) and pf.dotted(rets[0].value.func) in ('hl.Interval', 'Interval', 'hl.utils.Interval'),
             f'{where}.locus_interval: unrecognised interval constructor')
    call = rets[0].value
    kws = {k.arg: k.value for k in call.keywords}
    a_start, a_end = [a.arg for a in li.args.args][:2]

    def pos_of(e: Optional[ast.AST]) -> Optional[str]:
        if isinstance(e, ast.Call):
            for k in e.keywords:
                if k.arg == 'position' and isinstance(k.value, ast.Name):
                    return k.value.id
        return None

    ctx.need(pos_of(kws.get('start')) == a_start and pos_of(kws.get('end')) == a_end, f'{where}.locus_interval: start/end loci are not built from the two arguments')

    def flag(name: str, default: bool) -> bool:
        v = kws.get(name)
        if v is None:
            return default
        ctx.need(isinstance(v, ast.Constant) and isinstance(v.value, bool), f'{where}.locus_interval: {name} is not a literal')
        return v.value

    # defaults of hail.utils.interval.Interval.__init__
    im = pf.load('hail/python/hail/utils/interval.py')
    ii = im.func('Interval.__init__')
    names = [a.arg for a in ii.args.args]
    dfl = dict(zip(names[len(names) - len(ii.args.defaults):], ii.args.defaults))
    for nm in ('includes_start', 'includes_end'):
        ctx.need(nm in dfl and isinstance(dfl[nm], ast.Constant), f'Interval.__init__: default of {nm} not found')
    inc_start = flag('includes_start', dfl['includes_start'].value)
    inc_end = flag('includes_end', dfl['includes_end'].value)
    # the statements to interpret: everything in calc_parts except the nested def and the length lookup
    body = []
    length_var = None
    for st in calc.body:
        if isinstance(st, (ast.FunctionDef,)):
            continue
        if isinstance(st, ast.Assign) and isinstance(st.value, ast.Subscript) and 'lengths' in pf.nsrc(st.value):
            length_var = st.targets[0].id  # type: ignore[attr-defined]
            continue
        body.append(st)
    ctx.need(length_var is not None, f'{where}: contig length lookup not found')
    list_names = [st.targets[0].id for st in body if isinstance(st, ast.Assign) and isinstance(st.value, ast.List) and not st.value.elts]  # type: ignore[attr-defined]
    ctx.need(len(list_names) == 1, f'{where}: result list not found')
    ret = [st for st in body if isinstance(st, ast.Return)]
    ctx.need(len(ret) == 1 and pf.nsrc(ret[0].value) == list_names[0], f'{where}: does not return the interval list')

    def simulate(L: int, S: int) -> List[Tuple[int, int]]:
        it = _Interp(where, 'locus_interval', list_names[0])
        it.run(body, {length_var: L, size_param: S})
        return it.out

    return simulate, inc_start, inc_end, calc


def _judge(parts: List[Tuple[int, int]], L: int, S: int, inc_start: bool, inc_end: bool):
    """(coverage problem, length problem) for one (L, S); interval arithmetic only (contigs have 10^8 bases)."""
    eff = []
    longest = 0
    out_of_range = None
    for a, b in parts:
        lo = a if inc_start else a + 1
        hi = b if inc_end else b - 1
        if hi < lo:
            continue
        longest = max(longest, hi - lo + 1)
        if lo < 1:
            out_of_range = lo
        if hi > L:
            out_of_range = hi
        eff.append((lo, hi))
    eff.sort()
    missing: List[int] = []
    twice: List[int] = []
    expected = 1
    for lo, hi in eff:
        if lo > expected and len(missing) < 4:
            missing += list(range(expected, min(lo, expected + 4)))
        if lo < expected and len(twice) < 4:
            twice += list(range(max(lo, 1), min(hi, expected - 1) + 1))[:4]
        expected = max(expected, hi + 1)
    if expected <= L and len(missing) < 4:
        missing += list(range(expected, min(L + 1, expected + 4)))
    missing = [x for x in missing if 1 <= x <= L]
    cp = None
    if missing:
        kind = 'last base uncovered' if missing == [L] else 'gap'
        cp = (kind, f'base(s) {missing[:3]}{"..." if len(missing) > 3 else ""} of 1..{L} are in no interval')
    elif twice:
        cp = ('overlap', f'base(s) {twice[:3]} are in more than one interval')
    elif out_of_range is not None:
        cp = ('out of range', f'position {out_of_range} lies outside 1..{L}')
    lp = None
    if longest > S:
        lp = ('one base too long' if longest == S + 1 else 'too long', f'an interval spans {longest} bases')
    return cp, lp


def check_partitioning(ctx: Ctx, m: pf.Module) -> None:
    mc = pf.load(FC)
    simulate, inc_start, inc_end, calc = _partition_model(ctx, mc)
    N = 80 if ctx.tier != 'thorough' else 200
    bad: Dict[Tuple[str, str], List[Tuple[int, int, str, list]]] = {}
    n = 0
    for L in range(1, N + 1):
        for S in range(1, N + 1):
            parts = simulate(L, S)
            cp, lp = _judge(parts, L, S, inc_start, inc_end)
            n += 1
            if cp:
                bad.setdefault(('R4', cp[0]), []).append((L, S, cp[1], parts))
            if lp:
                bad.setdefault(('R5', lp[0]), []).append((L, S, lp[1], parts))
    ctx.unit('partition_domain_points', n)
    # real contig lengths: the mitochondrial contigs for a range of sizes, and a few probe points on large contigs
    real: List[Tuple[str, str, int]] = []
    lengths: Dict[Tuple[str, str], int] = {}
    for rg, rel in (('GRCh37', 'hail/hail/resources/reference/grch37.json'), ('GRCh38', 'hail/hail/resources/reference/grch38.json')):
        try:
            data = json.loads(read_repo(rel))
            for c in data['contigs'][:25]:
                lengths[(rg, c['name'])] = c['length']
                if c['length'] <= 20000:
                    real.append((rg, c['name'], c['length']))
        except (AnalysisError, KeyError, ValueError):
            continue
    witness: Dict[Tuple[str, str], str] = {}
    points = [(rg, name, lengths[(rg, name)], S) for rg, name, S in PROBES if (rg, name) in lengths]
    points += [(rg, name, L, S) for rg, name, L in real for S in range(100, 201)]
    for rg, name, L, S in points:
        cp, lp = _judge(simulate(L, S), L, S, inc_start, inc_end)
        n += 1
        if cp:
            witness.setdefault(('R4', cp[0]), f'{rg} contig {name} (length {L}) with interval_size={S}: {cp[1]}')
        if lp:
            witness.setdefault(('R5', lp[0]), f'{rg} contig {name} (length {L}) with interval_size={S}: {lp[1]}')
    for k, w in witness.items():
        bad.setdefault(k, [])
    ctx.extra_cov['partition_points_evaluated'] = n
    cons = f'{FC}::calculate_even_genome_partitioning.calc_parts'
    for rule, what, text in (('R4', 'coverage', 'the intervals do not cover every base of the contig exactly once'),
                             ('R5', 'length', 'intervals are longer than the requested interval_size')):
        kinds = sorted(k for (r, k) in bad if r == rule)
        if not kinds:
            ctx.ok(rule, f'{cons}::{what}', {'pairs': N * N, 'closed': [inc_start, inc_end]})
        for kind in kinds:
            lst = bad[(rule, kind)]
            msg = f'{text} ({kind}): '
            if lst:
                L, S, pr, parts = min(lst, key=lambda t: (t[0] + t[1], t[0]))
                msg += f'contig_length={L}, interval_size={S} gives {parts}: {pr}'
                multi = [t for t in lst if t[0] > 2 and (t[0], t[1]) != (L, S)]
                if multi and L <= 2:
                    L2, S2, pr2, parts2 = min(multi, key=lambda t: (t[0] + t[1], t[0]))
                    msg += f'; contig_length={L2}, interval_size={S2} gives {parts2}: {pr2}'
                msg += f' ({len(lst)} of {N * N} evaluated (length, size) pairs fail'
            else:
                msg += '(no pair of the small domain fails'
            if (rule, kind) in witness:
                msg += f'; {witness[(rule, kind)]}'
            msg += ')'
            ctx.bad(rule, f'{cons}::{what}::{kind}', msg, mc.path, calc.lineno, extra=[(a, b, c) for a, b, c, _ in lst[:20]])
    # every call site passes a reference genome and a size; the default sizes are positive integers
    cls = m.cls(CLS)
    for nm in ('default_genome_interval_size', 'default_exome_interval_size'):
        v = _class_assign(cls, nm)
        ctx.check(isinstance(v, ast.Constant) and isinstance(v.value, int) and v.value >= 1, 'R5', f'{F}::{CLS}.{nm}',
                  f'{nm} = {pf.nsrc(v)} is not a positive integer: math.ceil(contig_length / interval_size) divides by it', m.path, v.lineno)


def run(ctx: Ctx) -> None:
    ctx.explanation = ('Slot / to_dict / __init__ / decoder-hook tables compared key by key; CFG dominance of save over step in run; the statements of '
                       'calc_parts interpreted exactly for every (contig length, interval size) in 1..80 x 1..80 and for the real mitochondrial contigs.')
    ctx.rule('R1', 'attributes mutated by the step functions are serialised slots (or on the frozen transient list)', 5)
    ctx.rule('R2', 'saved plan complete and loadable: slots <-> to_dict keys <-> __init__ parameters <-> decoder inverses', 45)
    ctx.rule('R3', 'run saves before every step and after the last; save/load go through Encoder.to_dict / Decoder._object_hook', 5)
    ctx.rule('R4', 'even genome partitioning covers every base of a contig exactly once (evaluated domain)', 1)
    ctx.rule('R5', 'no interval of the even genome partitioning is longer than the requested size (evaluated domain)', 3)
    ctx.assume('math.ceil(a / b) is modelled with exact rationals (float rounding of very large quotients is not modelled)')
    ctx.assume('hl.Interval(start, end, includes_start, includes_end) denotes the locus positions start..end with the stated closedness')
    m = pf.load(F)
    ctx.unit('files', 2)
    cls = m.cls(CLS)
    ser, _slots = check_slots(ctx, m, cls)
    check_roundtrip(ctx, m, cls, ser)
    check_run(ctx, m, cls)
    check_partitioning(ctx, m)
