"""C39 Job lifecycle protocol terminates and never double-runs  (PARTIAL: structural necessary conditions only).

The statement quantifies over all interleavings of the driver loops, worker reports and instance failures.  Liveness and mutual
exclusion over interleavings are NOT decided here (no static analysis can); the per-message safety obligations are decided under
C04 (lifecycle relation, complete at most once), C05 (readiness), C07 (cancellation predicate / guards), C10 (free cores), C41.
What IS decided are the conditions without which no interleaving argument can succeed - each visible in the shape of the code:

  R1  progress coverage (exhaustiveness over the finite domain state x always_run x cancelled x group-cancelled).  Every live class
      has a mover: (a) every cancelled, not-always-run job in Ready / Creating / Running is selected by one of the canceller loops
      (union of the loops' must-select truth tables covers the reachable classes) and that loop hands each record to a mover whose
      stored procedure admits the state (mark_job_complete('Cancelled') for Ready / Creating, unschedule_job for Running);
      (b) ordinary runnable jobs: Ready is selected by the pool scheduler and by the job-private instance creator, Creating by the
      job-private scheduler, each handing the record to schedule_job / mark_job_creating; (c) LOWER bounds of the from-sets in SQL:
      schedule_job admits {Ready, Creating}, mark_job_creating {Ready}, unschedule_job {Creating, Running} for the current attempt
      (C04-R1 decides the UPPER bounds; mark_job_complete admits exactly {Ready, Creating, Running}: C04-R2); the driver wrappers
      reach their CALL on every normal path; (d) the domain restriction "a not-always-run job with cancelled = 1 is never Creating /
      Running" is justified by the closed world of writers of jobs.cancelled (raised only by the children statement, on Pending rows).
  R2  always-run jobs of a cancelled batch still run: the job-private scheduler selects Creating always-run jobs whatever the
      cancelled flag and the group flag; the three admitting procedures consult cancellation ONLY through the is_job_cancelled flag
      (evaluated with that flag false and every raw cancellation variable true: the state write must still be taken).  The Ready
      rows of the two `user_runnable_jobs` are C05-R4, the predicate itself C07-R4, the canceller's always_run = 0 filter C07-R5.
  R3  every loop is live: each loop body is started by its component's constructor / factory on every normal path through
      ensure_future(retry_long_running(.., run_if_changed, EVENT, BODY)) or ensure_future(periodically_call(..)); the factories are
      reached from the driver's start-up; the runners never give up (no normal exit, the body is called in every iteration, an
      exception is retried); and every EVENT has a PERIODIC setter registered at start-up.  The last clause is what progress rests
      on in this code base: per-record failures are swallowed with should_wait left True, so without the periodic bump work stays
      behind with nobody to set the event.  Consequently `should_wait = False on limit` and `set the event after each change` are
      latency optimisations here, not necessary conditions, and are not armed (a loop woken every 60 s / 15 s drains any backlog).
  R4  an attempt that can no longer finish is ended: deactivate_instance returns every Creating AND Running job whose current attempt
      is on the instance to Ready, for pending and active instances, in the transaction that makes the instance inactive; nothing else
      takes an instance out of the live states (closed world of writers of instances.state; 'deleted' only from 'inactive'; no DELETE);
      every Python path that retires an instance deactivates it first; the monitor retires pending / active instances whose VM is
      gone or terminated; the orphan sweeper never selects the job's CURRENT attempt; a job that cannot be scheduled at all
      (job config cannot be built, no supported region) is marked Error instead of staying Ready forever.
  R5  a single current attempt: jobs.attempt_id is written only together with jobs.state, := in_attempt_id whenever the job becomes
      Creating / Running; mark_job_complete treats a report as stale exactly when jobs.attempt_id (read FOR UPDATE for the same job) is
      another attempt - not when it is NULL or the same; unschedule_job returns the job to Ready only for the attempt that IS current
      (truth tables over NULL / same / other).  C04-R2 only checks that a stale branch exists and writes nothing.
"""
from __future__ import annotations

import ast
from typing import Any, Dict, List, Optional, Set, Tuple

from engines import c0506facts as cf
from engines import c39facts as kf
from engines import jobgraphfacts as jg
from engines import pyfacts as pf
from engines import sqlfront as sf
from engines import sqlrules as sr
from engines.common import AnalysisError, Ctx
from engines.sqlast import N, text
from engines.sqleval import UNKNOWN, may

META = dict(
    category='other',
    text='PARTIAL claim. Decided: the structural necessary conditions of the protocol-level statement that are visible in the code and not already rules of C04/C05/C07/C10 - '
         'exhaustiveness of the driver selections and of the admitting guards over the finite (state, always_run, cancelled, group-cancelled) domain (truth tables), '
         'registration and wake-up guarantee of every loop, the return of jobs to Ready when their instance goes away, and the guards that keep jobs.attempt_id the single '
         'designation of the current attempt. NOT decided: liveness and mutual exclusion over interleavings of the loops, worker reports and faults - that argument needs a model of the '
         'protocol and is outside static analysis; a pass here means no NECESSARY condition of it is visibly broken.',
    note='Assumes C04 (lifecycle relation, upper bounds), C05-R2/R4, C07-R4/R5 (is_job_cancelled, scheduler / canceller filters), C01 (the per-user counters that make a loop visit a user). '
         'Trusted: SQL parser, migration replay, asyncio semantics of Event / ensure_future. The runners are read from hail/python/hailtop/utils/utils.py.',
    technique='static analysis: truth tables over flag valuations of SQL selections (helpers followed) + guard may-analysis in stored routines (lower bounds of from-sets) + '
              'registration exhaustiveness and CFG must-pass-through + who-sets-which-event table + writer closed worlds + three-valued evaluation of Python tests over enumerated atoms',
    design_ref='DESIGN.md §3 C39',
)

STATES = ['Pending', 'Ready', 'Creating', 'Running', 'Success', 'Failed', 'Error', 'Cancelled']
TERMINAL = {'Success', 'Failed', 'Error', 'Cancelled'}
INST_STATES = ['pending', 'active', 'inactive', 'deleted']

CANCELLER = 'batch/batch/driver/canceller.py'
POOL = 'batch/batch/driver/instance_collection/pool.py'
JPIM = 'batch/batch/driver/instance_collection/job_private.py'
BASE = 'batch/batch/driver/instance_collection/base.py'
JOB = 'batch/batch/driver/job.py'
INSTANCE = 'batch/batch/driver/instance.py'
MAIN = 'batch/batch/driver/main.py'
UTILS = 'hail/python/hailtop/utils/utils.py'

# (module, loop body, selection generator nested in it)
CANCEL_LOOPS = [
    (CANCELLER, 'Canceller.cancel_cancelled_ready_jobs_loop_body', 'user_cancelled_ready_jobs'),
    (CANCELLER, 'Canceller.cancel_cancelled_creating_jobs_loop_body', 'user_cancelled_creating_jobs'),
    (CANCELLER, 'Canceller.cancel_cancelled_running_jobs_loop_body', 'user_cancelled_running_jobs'),
]
# states each driver-side mover's stored procedure admits (lower bounds decided in R1c / C04-R2)
MOVER_ADMITS = {'mark_job_complete': {'Ready', 'Creating', 'Running'}, 'unschedule_job': {'Creating', 'Running'},
                'schedule_job': {'Ready', 'Creating'}, 'mark_job_creating': {'Ready'}}


def _py_mentioning(*words: str) -> List[str]:
    """Modules of batch/batch whose text contains every word (case-insensitive); only a gate in front of the parser: the decision is taken on the parsed SQL."""
    from engines.common import read_repo
    out = []
    for rel in pf.walk_py(['batch/batch']):
        low = read_repo(rel).lower()
        if all(w in low for w in words) and any(k in low for k in ('update', 'delete')):
            out.append(rel)
    return out


def _row(r: kf.Row) -> str:
    return f'(state={r[0]}, always_run={r[1]}, cancelled={r[2]}, group_cancelled={r[3]})'


def reachable(r: kf.Row) -> bool:
    s, ar, c, gc = r
    return not (s in ('Creating', 'Running') and ar == 0 and c == 1)


# ------------------------------------------------------------------------------------------------
# movers of a selection loop
# ------------------------------------------------------------------------------------------------

def loop_movers(ctx: Ctx, m: pf.Module, body_q: str, gen: str) -> Tuple[Dict[str, List[ast.Call]], ast.AST]:
    """{mover name: calls} dispatched per record of the `for record in <gen>(..)` loop of the loop body."""
    jobm = pf.load(JOB)
    fn = m.func(body_q)
    loops = kf.record_loops(m, fn, gen)
    ctx.need(len(loops) == 1, f'{m.rel}::{body_q}: expected one loop over {gen}(..), found {len(loops)}')
    calls = kf.dispatched_calls(loops[0])
    imported = {k for k, v in m.imports().items() if v.endswith('job.' + k)}
    out: Dict[str, List[ast.Call]] = {}
    for c in calls:
        name = (pf.dotted(c.func) or '').split('.')[-1]
        if name in MOVER_ADMITS and name in imported and isinstance(c.func, ast.Name):
            if name == 'mark_job_complete':
                a = kf.call_arg(c, jobm.func('mark_job_complete'), 'new_state')
                if a is None or pf.const_str(a) not in TERMINAL:
                    continue
            out.setdefault(name, []).append(c)
    return out, loops[0]


def r1_cancellers(ctx: Ctx, schema: Dict[str, List[str]]) -> None:
    m = pf.load(CANCELLER)
    per_loop = []
    for rel, body_q, gen in CANCEL_LOOPS:
        fn = m.func(body_q + '.' + gen)
        S = kf.selection(m, fn, f'{rel}::{body_q}.{gen}', schema)
        movers, loop = loop_movers(ctx, m, body_q, gen)
        admitted: Set[str] = set()
        for name in movers:
            admitted |= MOVER_ADMITS[name]
        per_loop.append((body_q, gen, S, movers, admitted, loop))
        states = sorted({r[0] for r in S.must})
        cons = f'{rel}::{body_q}::records handed to a mover'
        lost = [s for s in states if s not in admitted]
        ctx.check(bool(movers) and not lost, 'R1', cons,
                  (f'the loop selects jobs in state {states} but hands its records to {sorted(movers) or "no mover"}' +
                   (f', whose stored procedure does not admit {lost}' if movers else ' (no call of mark_job_complete(.., <terminal state>, ..) / unschedule_job per record)') +
                   ': the selected cancelled jobs stay where they are - a cancelled batch with such a job never completes'),
                  m.path, loop.lineno, detail={'movers': sorted(movers), 'states': states})
    ctx.unit('canceller_selections', len(per_loop))
    want = [r for r in ((s, 0, c, gc) for s in kf.LIVE for c in (0, 1) for gc in (0, 1)) if (r[2] or r[3]) and reachable(r)]
    for r in want:
        cons = f'{CANCELLER}::Canceller::cancelled job {_row(r)} is selected'
        hit = [(b, g) for b, g, S, mv, adm, _ in per_loop if r in S.must and r[0] in adm]
        if hit:
            ctx.ok('R1', cons, {'by': [g for _, g in hit]})
            continue
        maybe = [g for b, g, S, mv, adm, _ in per_loop if r in S.may]
        if maybe:
            raise AnalysisError(f'{cons}: only conditionally selected by {maybe} (guards / conjuncts the analysis cannot evaluate)')
        what = {'Ready': 'it is never scheduled (the schedulers skip cancelled jobs) and never cancelled: it stays Ready for ever and the cancelled batch never completes',
                'Creating': 'its private instance is never taken down and the job is only cancelled if that instance happens to fail',
                'Running': 'it keeps running until it ends by itself, however long that takes, although the batch was cancelled'}[r[0]]
        ctx.bad('R1', cons, f'no canceller loop selects a not-always-run job with {_row(r)}: {what}. Selections: ' +
                '; '.join(f'{g}: {[q["conj"] for q in S.queries]} for group_cancelled in {list(S.gc_domain)}' for _, g, S, _, _, _ in per_loop), m.path, 0)


SCHEDULERS = [
    # (module, loop body, generator or None for a flat query, mover, rows that must be selected (R1), rows for R2)
    # (the R2 rows of the two `user_runnable_jobs` coincide with C05-R4 "always-run jobs are offered regardless"; repeated here so that the clause
    #  of C39 does not rest on another property's report - same truth table, same engine)
    (POOL, 'PoolScheduler.schedule_loop_body', 'user_runnable_jobs', 'schedule_job', [('Ready', 0, 0, 0)], [('Ready', 1, c, gc) for c in (0, 1) for gc in (0, 1)]),
    (JPIM, 'JobPrivateInstanceManager.create_instances_loop_body', 'user_runnable_jobs', 'mark_job_creating', [('Ready', 0, 0, 0)], [('Ready', 1, c, gc) for c in (0, 1) for gc in (0, 1)]),
    (JPIM, 'JobPrivateInstanceManager.schedule_jobs_loop_body', None, 'schedule_job', [('Creating', 0, 0, 0)],
     [('Creating', 1, c, gc) for c in (0, 1) for gc in (0, 1)]),
]


def r1_schedulers(ctx: Ctx, schema: Dict[str, List[str]]) -> None:
    for rel, body_q, gen, mover, rows1, rows2 in SCHEDULERS:
        m = pf.load(rel)
        body = m.func(body_q)
        if gen is not None:
            S = kf.selection(m, m.func(body_q + '.' + gen), f'{rel}::{body_q}.{gen}', schema)
            movers, loop = loop_movers(ctx, m, body_q, gen)
        else:
            S = kf.flat_selection(m, body, f'{rel}::{body_q}', schema)
            loops = [n for n in pf.walk_shallow(body) if isinstance(n, (ast.For, ast.AsyncFor)) and any(isinstance(c, ast.Call) and isinstance(c.func, ast.Attribute) and c.func.attr in sf.EXEC_METHODS for c in ast.walk(n.iter))]
            ctx.need(len(loops) == 1, f'{rel}::{body_q}: loop over the selection not found')
            loop = loops[0]
            jobm_names = {k for k, v in m.imports().items() if v.endswith('job.' + k)}
            movers = {}
            for c in kf.dispatched_calls(loop):
                name = (pf.dotted(c.func) or '').split('.')[-1]
                if name in MOVER_ADMITS and name in jobm_names and isinstance(c.func, ast.Name):
                    movers.setdefault(name, []).append(c)
        for rule, rows in (('R1', rows1), ('R2', rows2)):
            if not rows:
                continue
            missing = [r for r in rows if r not in S.must]
            undec = [r for r in missing if r in S.may]
            if undec:
                raise AnalysisError(f'{rel}::{body_q}: whether {[_row(r) for r in undec]} is selected depends on guards / conjuncts the analysis cannot evaluate')
            label = 'runnable jobs' if rule == 'R1' else 'always-run jobs whatever cancelled / the group flag'
            ctx.check(not missing, rule, f'{rel}::{body_q}::selects {rows[0][0]} {label}',
                      (f'the selection {[q["conj"] for q in S.queries]} does not select {[_row(r) for r in missing]}: ' +
                       ('such a job is runnable but no loop ever offers it to ' + mover + ', so it never leaves ' + rows[0][0] if rule == 'R1' else
                        f'an always-run job of a cancelled batch (or with a failed parent) in state {rows[0][0]} is never handed to {mover}: it never runs')) if missing else '',
                      m.path, S.lineno, detail={'must': sorted(S.must)})
        cons = f'{rel}::{body_q}::records handed to {mover}'
        ctx.check(mover in movers, 'R1', cons, f'no call of {mover}(..) is made for a selected record (movers found: {sorted(movers)}): the selected jobs are never moved on from {rows1[0][0]}',
                  m.path, loop.lineno, detail=sorted(movers))


# ------------------------------------------------------------------------------------------------
# SQL admission (lower bounds)
# ------------------------------------------------------------------------------------------------

def admission(ctx: Ctx, prog: sf.SqlProgram, name: str, target: str, required: List[str], inst_states: List[str], same_attempt: bool, rule: str, raw_cancel: int) -> None:
    r = prog.routine(name)
    a = r.ast
    svars = kf.job_row_vars(a, 'state')
    cvars = kf.cancel_flag_vars(a)
    ivars = kf.instance_state_vars(a)
    avars = kf.job_row_vars(a, 'attempt_id')
    rawc = set(kf.job_row_vars(a, 'cancelled'))
    for st in sf.all_statements(a.body):
        if st.kind == 'select' and st.into and any(s.kind == 'select' and s.frm is not None and any(t.lower() == 'job_groups_cancelled' for t in sf.table_names(s.frm)) for s in st.walk()):
            rawc |= {v.parts[0].lower() for v in st.into if sr.is_var(v)}
    ctx.need(svars, f'{name}: the job state is not read into a variable for (in_batch_id, in_job_id)')
    writes = []
    for st, guard in sf.guarded_statements(a.body):
        v = kf.jobs_set(st, 'state')
        if v is not None and v.kind == 'lit' and v.value == target and sr.has_eq(st.where, 'batch_id', 'in_batch_id') and sr.has_eq(st.where, 'job_id', 'in_job_id'):
            extra = [c for c in sf.conjuncts(st.where) if not (c.kind == 'bin' and c.op == '=' and text(c.right).lower() in ('in_batch_id', 'in_job_id'))]
            writes.append((st, tuple(guard) + tuple((c, True) for c in extra)))
    ctx.need(writes, f'{name}: UPDATE jobs SET state = \'{target}\' for (in_batch_id, in_job_id) not found')
    names = set(svars) | set(cvars) | set(ivars) | set(avars) | rawc | {'in_attempt_id', 'state'}
    for s in required:
        for ist in inst_states:
            def known(n: N, s=s, ist=ist) -> Any:
                if n.kind != 'col':
                    return UNKNOWN
                t = n.parts[-1].lower()
                if len(n.parts) == 1:
                    if t in svars:
                        return s
                    if t in cvars:
                        return 0
                    if t in ivars:
                        return ist
                    if t in avars or t == 'in_attempt_id':
                        return 'A' if same_attempt else UNKNOWN
                    if t in rawc:
                        return raw_cancel
                if t == 'state' and (len(n.parts) == 1 or n.parts[-2].lower() == 'jobs'):
                    return s
                return UNKNOWN
            vals = [kf.guard_values(g, known) for _, g in writes]
            cons = f'sql::{name}::admits {s} (instance {ist})' + (' always-run job of a cancelled group' if rule == 'R2' else '')
            if any(v == {True} for v in vals):
                ctx.ok(rule, cons, {'guard': [("" if p else "NOT ") + text(c) for c, p in writes[0][1]]})
                continue
            if any(True in v for v in vals):
                unk = sorted({u for _, g in writes for u in kf.unknown_atoms(g, names)})
                raise AnalysisError(f'{cons}: the guard of the state write depends on {unk}, which the analysis cannot evaluate')
            g0 = [("" if p else "NOT ") + text(c) for c, p in writes[0][1]]
            if rule == 'R2':
                msg = (f'with is_job_cancelled = FALSE (always-run job) but the raw cancellation variables {sorted(rawc)} set, the write state := {target} is not taken (path condition {g0}): '
                       'an always-run job of a cancelled batch is refused by the procedure and never runs')
            else:
                why = {'schedule_job': 'the scheduler offers the job, the worker is told to run it, but the database never records it as Running' if s == 'Ready' else
                       'a job-private job whose instance came up is refused: it stays Creating for ever',
                       'mark_job_creating': 'a job-private job never leaves Ready: an instance is created for it on every pass of the loop',
                       'unschedule_job': f'a cancelled {s} job is never returned to Ready, so the canceller can never complete it'}.get(name, '')
                msg = f'a job in state {s}' + (' whose current attempt is the one named' if same_attempt else '') + f', not cancelled, instance {ist}, is not moved to {target} (path condition {g0}): {why}'
            ctx.bad(rule, cons, msg, r.file, r.line_of(writes[0][0]))


def r1_sql(ctx: Ctx, prog: sf.SqlProgram) -> None:
    admission(ctx, prog, 'schedule_job', 'Running', ['Ready', 'Creating'], ['active'], False, 'R1', 0)
    admission(ctx, prog, 'mark_job_creating', 'Creating', ['Ready'], ['pending'], False, 'R1', 0)
    admission(ctx, prog, 'unschedule_job', 'Ready', ['Creating', 'Running'], ['pending', 'active'], True, 'R1', 0)
    # the driver wrappers reach their CALL on every normal path
    jobm = pf.load(JOB)
    for w in ('schedule_job', 'mark_job_creating', 'unschedule_job', 'mark_job_complete'):
        fn = jobm.func(w)
        embs = [e for e in sf.embedded_in(jobm) if e.fn is fn and e.sql_text is not None and e.stmts() and e.stmts()[0].kind == 'call' and e.stmts()[0].name.lower() == w]
        cons = f'{JOB}::{w}::reaches CALL {w}'
        if not embs:
            ctx.bad('R1', cons, f'the driver function {w} no longer issues CALL {w}: the transition it stands for never reaches the database', jobm.path, fn.lineno)
            continue
        esc = kf.on_every_normal_path(fn, embs[0].call)
        ctx.check(esc is None, 'R1', cons, f'{w} can return normally without issuing CALL {w} (via {esc}): the caller believes the job was moved on, the database row is unchanged', jobm.path, embs[0].lineno)


def r1_domain(ctx: Ctx, prog: sf.SqlProgram) -> None:
    """jobs.cancelled is raised only by the children statement of mark_job_complete / the commit recount - statements whose rows are
    Pending (C04-R1) - so a not-always-run job with cancelled = 1 never got past Ready (C07-R4 refuses it)."""
    bad = []
    n = 0
    for name, r in sorted(prog.routines.items()):
        for st in sf.all_statements(r.ast.body):
            v = kf.jobs_set(st, 'cancelled')
            if v is None:
                continue
            n += 1
            sv = kf.jobs_set(st, 'state')
            tos = set()
            if sv is not None:
                tos = {x.value for x in sv.walk() if x.kind == 'lit' and isinstance(x.value, str)}
            if sv is None or not tos <= {'Ready', 'Pending'}:
                bad.append((name, r, st))
    for rel in _py_mentioning('jobs', 'cancelled', 'update'):
        m = pf.load(rel)
        for e in sf.embedded_in(m):
            if e.sql_text and 'jobs' in e.sql_text:
                for st in e.stmts():
                    if kf.jobs_set(st, 'cancelled') is not None:
                        n += 1
                        bad.append((f'{rel}::{e.qual}', None, st))
    ctx.need(n >= 1, 'no writer of jobs.cancelled found')
    cons = 'sql::jobs.cancelled::raised only on rows that are Pending'
    if bad:
        name, r, st = bad[0]
        ctx.bad('R1', cons, f'{name} sets jobs.cancelled outside a release statement (`{text(st)[:120]}`): a Creating / Running job can now carry cancelled = 1, and the canceller queries for those states '
                'require cancelled = 0 - such a job of a cancelled group is selected by no canceller loop', r.file if r is not None else '', r.line_of(st) if r is not None else 0)
    else:
        ctx.ok('R1', cons, {'writers': n})
    ctx.assume('a not-always-run job with jobs.cancelled = 1 is never Creating / Running: cancelled is raised only on Pending rows (checked) and C07-R4 refuses state := Creating|Running for it')


# ------------------------------------------------------------------------------------------------
# R2 (SQL part)
# ------------------------------------------------------------------------------------------------

def r2_sql(ctx: Ctx, prog: sf.SqlProgram) -> None:
    admission(ctx, prog, 'schedule_job', 'Running', ['Ready'], ['active'], False, 'R2', 1)
    admission(ctx, prog, 'mark_job_creating', 'Creating', ['Ready'], ['pending'], False, 'R2', 1)
    admission(ctx, prog, 'mark_job_started', 'Running', ['Ready'], ['active'], False, 'R2', 1)
    ctx.assume('is_job_cancelled(job) is FALSE for always_run = 1 (C07-R4 truth table) and is the flag the three procedures test (C07-R4 reaching definitions)')


# ------------------------------------------------------------------------------------------------
# R3 loops are live
# ------------------------------------------------------------------------------------------------

# (module, class, loop body method, what stops when it does not run)
LOOPS = [
    (CANCELLER, 'Canceller', 'cancel_cancelled_ready_jobs_loop_body', 'cancelled Ready jobs are never completed: a cancelled batch never finishes'),
    (CANCELLER, 'Canceller', 'cancel_cancelled_creating_jobs_loop_body', 'cancelled Creating jobs keep their private instances'),
    (CANCELLER, 'Canceller', 'cancel_cancelled_running_jobs_loop_body', 'cancelled Running jobs are never unscheduled'),
    (CANCELLER, 'Canceller', 'cancel_orphaned_attempts_loop_body', 'attempts that are no longer the job\'s current one keep running on their workers'),
    (POOL, 'PoolScheduler', 'schedule_loop_body', 'Ready jobs of the pool are never scheduled'),
    (POOL, 'Pool', 'create_instances', 'the pool never grows: Ready jobs wait for workers that are never created'),
    (JPIM, 'JobPrivateInstanceManager', 'create_instances_loop_body', 'job-private jobs never get an instance (stay Ready)'),
    (JPIM, 'JobPrivateInstanceManager', 'schedule_jobs_loop_body', 'job-private jobs whose instance came up are never started (stay Creating)'),
    (BASE, 'InstanceCollection', 'monitor_instances', 'dead or preempted instances are never noticed: their jobs stay Running / Creating for ever'),
]


def _class_of(m: pf.Module, fn: pf.FuncDef) -> Optional[str]:
    c = cf.enclosing_class(m, fn)
    return c.name if c is not None else None


def _swallows_failures(fn: pf.FuncDef) -> bool:
    """Does the loop body (closures included) contain an `except Exception` / bare handler that neither re-raises nor returns a value?"""
    for h in ast.walk(fn):
        if isinstance(h, ast.ExceptHandler) and (h.type is None or (pf.dotted(h.type) or '').split('.')[-1] in ('Exception', 'BaseException')):
            if not any(isinstance(x, ast.Raise) for b in h.body for x in ast.walk(b)):
                return True
    return False


def r3(ctx: Ctx) -> None:
    regs_by_mod: Dict[str, List[kf.Registration]] = {}

    def regs(rel: str) -> List[kf.Registration]:
        if rel not in regs_by_mod:
            regs_by_mod[rel] = kf.registrations(pf.load(rel))
        return regs_by_mod[rel]

    # ---- (a) registration exhaustiveness -----------------------------------------------------------
    event_loops: List[Tuple[str, str, str, kf.Registration]] = []
    for rel, cname, body, stops in LOOPS:
        m = pf.load(rel)
        cls = m.cls(cname)
        ctx.need(any(isinstance(d, (ast.FunctionDef, ast.AsyncFunctionDef)) and d.name == body for d in cls.body), f'{rel}::{cname}.{body}: loop body vanished')
        mine = [r for r in regs(rel) if r.body_name == body and _class_of(m, r.holder) == cname and isinstance(r.body, ast.Attribute)]
        cons = f'{rel}::{cname}.{body}::started by the component'
        if not mine:
            elsewhere = [f'{r2}::{pf.load(r2).qualname(x.holder)}' for r2 in (MAIN, CANCELLER, POOL, JPIM, BASE) for x in regs(r2) if x.body_name == body]
            ctx.need(not elsewhere, f'{cons}: the loop body is registered outside its class ({elsewhere}); whether that code runs for every {cname} is not decided')
            ctx.bad('R3', cons, f'no ensure_future(retry_long_running(.., run_if_changed, <event>, <obj>.{body})) / ensure_future(periodically_call(.., <obj>.{body})) in class {cname}: '
                    f'the loop is never started - {stops}', m.path, cls.lineno)
            continue
        r = mine[0]
        hq = m.qualname(r.holder)
        is_init = r.holder.name == '__init__'
        is_factory = any(isinstance(c.func, ast.Name) and c.func.id == cname for c in pf.calls_in(r.holder))
        ctx.need(is_init or is_factory, f'{cons}: registered in {hq}, which is neither the constructor nor a factory that constructs {cname}')
        if r.runner == 'event-unprotected':
            ctx.bad('R3', cons, f'{hq} starts the loop with run_if_changed directly, without retry_long_running: the first exception out of {body} (a database hiccup) ends the loop for good - {stops}', m.path, r.node.lineno)
            continue
        esc = kf.on_every_normal_path(r.holder, r.node)
        ctx.check(esc is None, 'R3', cons, f'{hq} can complete without starting the loop (via {esc}): {stops}', m.path, r.node.lineno, detail={'holder': hq, 'runner': r.runner, 'via': r.via})
        if r.runner == 'event':
            event_loops.append((rel, cname, body, r))
    ctx.unit('loops', len(LOOPS))

    # ---- (b) the components are created at start-up ------------------------------------------------
    mainm = pf.load(MAIN)
    st_fn = mainm.func('on_startup')
    calls = [c for c in pf.calls_in(st_fn) if pf.dotted(c.func) == 'Canceller.create']
    cons = f'{MAIN}::on_startup::creates the Canceller'
    if not calls:
        ctx.bad('R3', cons, 'on_startup no longer calls Canceller.create(app): none of the canceller loops exists in the running driver', mainm.path, st_fn.lineno)
    else:
        esc = kf.on_every_normal_path(st_fn, calls[0])
        ctx.check(esc is None, 'R3', cons, f'on_startup can complete without creating the Canceller (via {esc})', mainm.path, calls[0].lineno)
    poolm = pf.load(POOL)
    init = poolm.func('Pool.__init__')
    calls = [c for c in pf.calls_in(init) if pf.dotted(c.func) == 'PoolScheduler']
    cons = f'{POOL}::Pool.__init__::constructs its PoolScheduler'
    if not calls:
        ctx.bad('R3', cons, 'Pool.__init__ no longer constructs a PoolScheduler: the pool has no scheduling loop', poolm.path, init.lineno)
    else:
        esc = kf.on_every_normal_path(init, calls[0])
        ctx.check(esc is None, 'R3', cons, f'a Pool can be constructed without its scheduler (via {esc})', poolm.path, calls[0].lineno)
    n_drv = 0
    for rel in pf.walk_py(['batch/batch/cloud']):
        if not rel.endswith('driver/driver.py'):
            continue
        dm = pf.load(rel)
        if 'InstanceCollectionManager(' not in dm.src:
            continue
        n_drv += 1
        names = {pf.dotted(c.func) for c in ast.walk(dm.tree) if isinstance(c, ast.Call)}
        miss = [x for x in ('Pool.create', 'JobPrivateInstanceManager.create') if x not in names]
        ctx.check(not miss, 'R3', f'{rel}::creates pools and the job-private manager', f'this cloud driver never calls {miss}: jobs of that kind are never scheduled in this cloud', dm.path, 1)
    ctx.need(n_drv >= 1, 'no cloud driver module that builds an InstanceCollectionManager found')

    # ---- (c) the runners never give up ---------------------------------------------------------------
    um = pf.load(UTILS)
    # run_if_changed(changed, f, ..)
    fn = um.func('run_if_changed')
    g = pf.cfg(fn)
    params = [a.arg for a in fn.args.args]
    ctx.need(len(params) >= 2, 'run_if_changed: signature not recognised')
    ev_p, f_p = params[0], params[1]
    body_calls = g.find(lambda n: any(isinstance(c.func, ast.Name) and c.func.id == f_p for c in pf.node_calls(n)))
    ctx.need(body_calls, 'run_if_changed: call of the loop body not found')
    cons = f'{UTILS}::run_if_changed::runs the body for ever'
    p_exit = g.path_avoiding(g.entry, lambda n: n is g.exit, lambda n: False, edge_ok=lambda a, b, lab: lab != 'exc')
    whiles = [n for n in pf.walk_shallow(fn) if isinstance(n, ast.While)]
    in_loop = bool(whiles) and all(any(any(x is c for x in ast.walk(w)) for w in whiles) for bn in body_calls for c in pf.node_calls(bn) if isinstance(c.func, ast.Name) and c.func.id == f_p)
    waits = g.find(lambda n: any(isinstance(c.func, ast.Attribute) and c.func.attr == 'wait' and pf.nsrc(c.func.value) == ev_p for c in pf.node_calls(n)))
    # no path from one wait to the next wait that avoids the body: every wake-up runs the body
    rewait = any(g.path_avoiding(w, lambda n: any(n is x for x in waits), lambda n: any(n is b for b in body_calls), edge_ok=lambda a, b, lab: lab != 'exc') is not None for w in waits)
    ctx.check(p_exit is None and in_loop and not rewait, 'R3', cons,
              ('run_if_changed can return normally (' + ' -> '.join(x.text()[:30] for x in (p_exit or [])[1:-1][-3:]) + '): the loop it drives ends and is not restarted (retry_long_running only retries exceptions)') if p_exit is not None else
              ('the body is not called inside the loop' if not in_loop else 'after a wake-up the runner can wait again without having run the body: the event is consumed, the work is not done'),
              um.path, fn.lineno)
    # retry_long_running(name, f, ..)
    fn = um.func('retry_long_running')
    g = pf.cfg(fn)
    params = [a.arg for a in fn.args.args]
    ctx.need(len(params) >= 2, 'retry_long_running: signature not recognised')
    f_p = params[1]
    body_calls = g.find(lambda n: any(isinstance(c.func, ast.Name) and c.func.id == f_p for c in pf.node_calls(n)))
    handlers = g.find(lambda n: n.kind == 'except' and isinstance(n.ast, ast.ExceptHandler) and n.ast.type is not None and (pf.dotted(n.ast.type) or '') == 'Exception')
    ctx.need(body_calls and handlers, 'retry_long_running: call of f / `except Exception` handler not found')
    cons = f'{UTILS}::retry_long_running::an exception restarts the loop'
    gives_up = None
    for h in handlers:
        p = g.path_avoiding(h, lambda n: (n is g.exit or n.kind in ('raise', 'return') or n is g.raise_exit) and not any(n is b for b in body_calls), lambda n: any(n is b for b in body_calls), edge_ok=lambda a, b, lab: lab != 'exc')
        if p is not None:
            gives_up = p
    ctx.check(gives_up is None, 'R3', cons, ('after an ordinary exception out of the loop body retry_long_running does not call it again (' + ' -> '.join(x.text()[:30] for x in (gives_up or [])[1:][-3:]) +
              '): one failed iteration (e.g. a database error) ends the scheduler / canceller loop for the life of the driver') if gives_up else '', um.path, fn.lineno)
    # periodically_call(period, f, ..)
    fn = um.func('periodically_call')
    params = [a.arg for a in fn.args.args]
    ctx.need(len(params) >= 2, 'periodically_call: signature not recognised')
    f_p = params[1]
    inner = [d for d in fn.body if isinstance(d, (ast.FunctionDef, ast.AsyncFunctionDef))]
    cons = f'{UTILS}::periodically_call::calls f for ever under retry_long_running'
    okp = False
    why = 'shape not recognised'
    if len(inner) == 1:
        lg = pf.cfg(inner[0])
        calls_f = lg.find(lambda n: any(isinstance(c.func, ast.Name) and c.func.id == f_p for c in pf.node_calls(n)))
        never_ends = lg.path_avoiding(lg.entry, lambda n: n is lg.exit, lambda n: False, edge_ok=lambda a, b, lab: lab != 'exc') is None
        wrapped = any((pf.dotted(c.func) or '').split('.')[-1] == 'retry_long_running' and any(isinstance(a, ast.Name) and a.id == inner[0].name for a in c.args) for c in pf.calls_in(fn))
        ctx.need(bool(calls_f), 'periodically_call: the inner loop does not call f')
        okp = never_ends and wrapped
        why = 'the inner loop can end normally' if not never_ends else 'the inner loop is not run under retry_long_running: the first exception ends the periodic task'
    else:
        ctx.need(False, 'periodically_call: inner loop function not found')
    ctx.check(okp, 'R3', cons, f'{why}: every periodic task (the 60 s scheduling / cancelling bump, the instance monitor, the orphan sweeper) stops', um.path, fn.lineno)
    # Notice: notify() sets every subscriber
    ncls = um.cls('Notice')
    meth = {d.name: d for d in ncls.body if isinstance(d, ast.FunctionDef)}
    ctx.need({'subscribe', 'notify'} <= set(meth), 'Notice: subscribe / notify not found')
    sub, noti = meth['subscribe'], meth['notify']
    app_ = [c for c in pf.calls_in(sub) if isinstance(c.func, ast.Attribute) and c.func.attr == 'append' and pf.nsrc(c.func.value).startswith('self.')]
    rets = [n for n in pf.walk_shallow(sub) if isinstance(n, ast.Return)]
    same = bool(app_) and len(app_[0].args) == 1 and len(rets) == 1 and rets[0].value is not None and pf.nsrc(rets[0].value) == pf.nsrc(app_[0].args[0]) and kf.on_every_normal_path(sub, app_[0]) is None
    lst = pf.nsrc(app_[0].func.value) if app_ else None
    fans = [l for l in noti.body if isinstance(l, ast.For) and pf.nsrc(l.iter) == lst and isinstance(l.target, ast.Name)
            and any(isinstance(c.func, ast.Attribute) and c.func.attr == 'set' and pf.nsrc(c.func.value) == l.target.id and not sr.enclosing_ifs(um, c, stop=l) for c in pf.calls_in(l))
            and not any(isinstance(x, (ast.Break, ast.Return)) for x in ast.walk(l))]
    ctx.check(same and bool(fans), 'R3', f'{UTILS}::Notice::notify sets every subscribed event', 'subscribe() does not hand out the event it records, or notify() does not set every recorded event: a pool / the job-private manager '
              'subscribed to scheduler_state_changed is never woken by mark_job_complete or by the periodic bump', um.path, ncls.lineno)

    # ---- (d) every event has a periodic setter --------------------------------------------------------
    periodic: Dict[kf.EventKey, List[str]] = {}
    for rel in (MAIN, CANCELLER, POOL, JPIM, BASE):
        m = pf.load(rel)
        for r in regs(rel):
            if r.runner != 'periodic' or kf.on_every_normal_path(r.holder, r.node) is not None:
                continue
            target: Optional[pf.FuncDef] = None
            if isinstance(r.body, ast.Name):
                target = next((f for f in m.tree.body if isinstance(f, (ast.FunctionDef, ast.AsyncFunctionDef)) and f.name == r.body.id), None)
            elif isinstance(r.body, ast.Attribute):
                c = cf.enclosing_class(m, r.holder)
                if c is not None:
                    target = next((d for d in c.body if isinstance(d, (ast.FunctionDef, ast.AsyncFunctionDef)) and d.name == r.body.attr), None)
            if target is None:
                continue
            for k in kf.events_set_by(m, target):
                periodic.setdefault(k, []).append(f'{rel}::{m.qualname(target)}')
    ctx.extra_cov['periodic_event_setters'] = {' '.join(k): v for k, v in sorted(periodic.items())}
    # who-sets-which-event table (evidence only: with a periodic setter for every event the direct setters are latency optimisations, see the module docstring)
    direct: Dict[str, List[str]] = {}
    for rel in (JOB, INSTANCE, MAIN, POOL, JPIM):
        m = pf.load(rel)
        for q, f in m.functions():
            try:
                ks = kf.events_set_by(m, f)
            except AnalysisError:
                continue
            for k in ks:
                direct.setdefault(' '.join(k), []).append(f'{rel.split("/")[-1]}::{q}')
    ctx.extra_cov['events_set_on_every_normal_path'] = direct
    for rel, cname, body, r in event_loops:
        m = pf.load(rel)
        ctx.need(isinstance(r.event, ast.Attribute), f'{rel}::{cname}.{body}: event expression `{pf.nsrc(r.event)}` not recognised')
        key = kf.resolve_event(m, m.cls(cname), r.event.attr)
        cons = f'{rel}::{cname}.{body}::event {" ".join(key[-1:])} has a periodic setter'
        if key in periodic:
            ctx.ok('R3', cons, {'event': list(key), 'set by': periodic[key]})
            continue
        bfn = m.func(f'{cname}.{body}')
        ctx.need(_swallows_failures(bfn), f'{cons}: no periodic setter found, and the loop body does not visibly swallow per-record failures; whether work can be left behind without the event being set is not decided')
        how = {'app': f"app['{key[1]}'].set()", 'notice': f"app['{key[1]}'].notify()", 'local': f'self.{key[-1]}.set()'}[key[0]]
        ctx.bad('R3', cons, f'the loop waits on {" ".join(key)} whenever its last pass ended with should_wait = True, and no periodically_call task registered at start-up does {how}. '
                f'History: {body} selects a job, the per-record call fails (a transient database error; the exception is caught and logged inside the loop body), the pass ends below its limit with '
                f'should_wait = True, run_if_changed waits - nothing sets the event again for that job, it stays in its state for ever ({stops_of(cname, body)})', m.path, r.node.lineno)


def stops_of(cname: str, body: str) -> str:
    return next((s for _, c, b, s in LOOPS if c == cname and b == body), '')


# ------------------------------------------------------------------------------------------------
# R4 an attempt that can no longer finish is ended
# ------------------------------------------------------------------------------------------------

def _instances_state_set(st: N) -> Optional[N]:
    if st.kind != 'update':
        return None
    tabs = [t for t in sf.from_tables(st.frm) if t.kind == 'table']
    alias = {(t.alias or t.name).lower(): t.name.lower() for t in tabs}
    if 'instances' not in alias.values():
        return None
    for c, v in st.sets:
        if c.kind == 'col' and c.parts[-1].lower() == 'state':
            if len(c.parts) > 1:
                if alias.get(c.parts[-2].lower()) == 'instances':
                    return v
            elif tabs[0].name.lower() == 'instances' and not any(t.name.lower() == 'jobs' for t in tabs):
                return v
    return None


def r4_sql(ctx: Ctx, prog: sf.SqlProgram) -> None:
    r = prog.routine('deactivate_instance')
    a = r.ast
    resets = [(st, g) for st, g in sf.guarded_statements(a.body) if kf.jobs_set(st, 'state') is not None]
    cons0 = 'sql::deactivate_instance'
    if not resets:
        ctx.bad('R4', cons0 + '::returns the jobs of the instance to Ready', 'deactivate_instance no longer writes jobs.state: the jobs whose attempt ran on the instance stay Creating / Running for ever '
                '(their attempt is ended, nobody will ever report for it), and are never rescheduled', r.file, r.line)
        return
    ctx.need(len(resets) == 1, 'deactivate_instance: more than one statement writes jobs.state')
    st, guard = resets[0]
    v = kf.jobs_set(st, 'state')
    ctx.need(v.kind == 'lit' and v.value == 'Ready', f'deactivate_instance: jobs.state := {text(v)} not recognised [the relation itself is C04-R1]')
    conj = list(sf.conjuncts(st.where))
    for j in (st.frm.joins if st.frm.kind == 'from' else []):
        if j.on is not None:
            conj += sf.conjuncts(j.on)
    state_conj = [c for c in conj if any(n.kind == 'col' and n.parts[-1].lower() == 'state' and (len(n.parts) == 1 or n.parts[-2].lower() == 'jobs') for n in c.walk())]
    for s in ('Creating', 'Running'):
        vals = [may(c, lambda n, s=s: s if (n.kind == 'col' and n.parts[-1].lower() == 'state') else UNKNOWN) for c in state_conj]
        ctx.need(all(len(x) == 1 for x in vals), f'deactivate_instance: the state conjuncts {[text(c) for c in state_conj]} depend on more than the job state')
        ctx.check(all(x == {True} for x in vals), 'R4', cons0 + f'::returns {s} jobs to Ready',
                  f'the reset `{text(st)[:150]}` does not cover jobs in state {s}: when the instance is deactivated (preempted, failed, idle) a {s} job whose attempt was on it keeps that state - '
                  'its attempt is ended, no worker will ever report for it, the schedulers only take Ready jobs: the job never reaches a terminal state', r.file, r.line_of(st))
    ivars = kf.instance_state_vars(a)
    ctx.need(ivars, 'deactivate_instance: the instance state is not read into a variable')
    lost = []
    for ist in ('pending', 'active'):
        gv = kf.guard_values(guard, lambda n, ist=ist: ist if (n.kind == 'col' and len(n.parts) == 1 and n.parts[0].lower() in ivars) else UNKNOWN)
        ctx.need(len(gv) == 1, f'deactivate_instance: the guard of the job reset depends on more than the instance state: {kf.unknown_atoms(guard, set(ivars))}')
        if gv != {True}:
            lost.append(ist)
    ctx.check(not lost, 'R4', cons0 + '::resets jobs for pending and active instances',
              f'the job reset is not executed when the instance was {lost}: ' + ('a job-private instance that never came up (activation timeout) leaves its job Creating for ever' if 'pending' in lost else
                                                                               'a preempted worker leaves its jobs Running for ever'), r.file, r.line_of(st))
    eqs = {(text(c.left).lower(), text(c.right).lower()) for c in conj if c.kind == 'bin' and c.op == '='}
    eqs |= {(b_, a_) for a_, b_ in eqs}
    cur_attempt = ('jobs.attempt_id', 'attempts.attempt_id') in eqs and ('jobs.batch_id', 'attempts.batch_id') in eqs and ('jobs.job_id', 'attempts.job_id') in eqs
    keyed = sr.has_eq(st.where, 'instance_name', 'in_instance_name')
    tabs = sorted(t.lower() for t in sf.table_names(st.frm))
    ctx.need(tabs == ['attempts', 'jobs'], f'deactivate_instance: the job reset joins {tabs}; expected jobs with attempts')
    ctx.check(cur_attempt and keyed, 'R4', cons0 + '::resets exactly the jobs whose CURRENT attempt is on the instance',
              ('the reset is not keyed by attempts.instance_name = in_instance_name' if not keyed else
               'the reset joins jobs with attempts without jobs.attempt_id = attempts.attempt_id: a job that once had an attempt on this instance but now runs elsewhere is returned to Ready while its '
               'current attempt keeps running - it is scheduled again and two attempts run as the current one'), r.file, r.line_of(st))
    inact = [(s2, g2) for s2, g2 in sf.guarded_statements(a.body) if (lambda x: x is not None and x.kind == 'lit' and x.value == 'inactive')(_instances_state_set(s2))]
    ctx.check(len(inact) == 1 and [text(c) for c, _ in inact[0][1]] == [text(c) for c, _ in guard] and [p for _, p in inact[0][1]] == [p for _, p in guard], 'R4',
              cons0 + '::job reset in the branch that makes the instance inactive', 'the instance becomes inactive on a path that does not reset its jobs', r.file, r.line_of(st))
    # closed world of instances.state
    n = 0
    for name, rr in sorted(prog.routines.items()):
        iv = kf.instance_state_vars(rr.ast)
        for s2, g2 in sf.guarded_statements(rr.ast.body):
            v2 = _instances_state_set(s2)
            if v2 is None:
                if s2.kind == 'delete' and any(t.lower() == 'instances' for t, _ in sf.written_tables(s2)):
                    n += 1
                    ctx.bad('R4', f'sql::{name}::DELETE FROM instances', 'instance rows are deleted: the jobs of a live instance deleted this way are never returned to Ready', rr.file, rr.line_of(s2))
                continue
            n += 1
            ctx.need(v2.kind == 'lit' and isinstance(v2.value, str), f'{name}: instances.state := {text(v2)} not a literal')
            froms = {x for x in INST_STATES if True in kf.guard_values(g2, lambda n_, x=x: x if (n_.kind == 'col' and len(n_.parts) == 1 and n_.parts[0].lower() in iv) else UNKNOWN)}
            cons = f'sql::{name}::instances.state := {v2.value}'
            if v2.value == 'inactive':
                ctx.check(name == 'deactivate_instance', 'R4', cons, f'{name} makes an instance inactive without being deactivate_instance (which ends the attempts and returns the jobs to Ready)', rr.file, rr.line_of(s2))
            elif v2.value == 'deleted':
                ctx.check(froms <= {'inactive', 'deleted'}, 'R4', cons, f'an instance can become deleted from {sorted(froms - {"inactive", "deleted"})} without passing through deactivate_instance: its Creating / Running jobs are never '
                          'returned to Ready', rr.file, rr.line_of(s2), detail=sorted(froms))
            elif v2.value == 'active':
                ctx.check(froms <= {'pending'}, 'R4', cons, f'an instance can be made active from {sorted(froms - {"pending"})}: an inactive instance whose jobs were already rescheduled comes back and runs them again', rr.file, rr.line_of(s2), detail=sorted(froms))
            else:
                ctx.bad('R4', cons, f'{name} writes instances.state = {v2.value}, outside the pending -> active -> inactive -> deleted life cycle', rr.file, rr.line_of(s2))
    ctx.need(n >= 3, f'only {n} writers of instances.state found')
    bad_py = []
    for rel in _py_mentioning('instances'):
        m = pf.load(rel)
        for e in sf.embedded_in(m):
            if e.sql_text is None or 'instances' not in e.sql_text:
                continue
            for s2 in e.stmts():
                if _instances_state_set(s2) is not None or (s2.kind == 'delete' and any(t.lower() == 'instances' for t, _ in sf.written_tables(s2))):
                    bad_py.append((m, e))
    ctx.check(not bad_py, 'R4', 'batch/batch::instances.state is written only by the stored procedures', (f'{bad_py[0][0].rel}::{bad_py[0][1].qual} writes instances.state / deletes instance rows directly, '
              'bypassing deactivate_instance') if bad_py else '', bad_py[0][0].path if bad_py else '', bad_py[0][1].lineno if bad_py else 0)


def _pruned_path(fn: pf.FuncDef, subjects: List[str], state: Optional[str], goal, avoid) -> Optional[List[pf.Node]]:
    """A normal path entry -> goal avoiding `avoid`, not taking branches that are impossible when <subject> == state at entry."""
    g = pf.cfg(fn)
    atom = kf.state_atom(subjects, state) if state is not None else (lambda e: None)

    def edge_ok(a: pf.Node, b: pf.Node, lab: str) -> bool:
        if lab == 'exc':
            return False
        if a.kind == 'test' and lab in ('T', 'F') and isinstance(a.ast, ast.expr):
            v = kf.py3(a.ast, atom)
            if v is not None and (v != (lab == 'T')):
                return False
        return True
    return g.path_avoiding(g.entry, goal, avoid, edge_ok=edge_ok)


def _calls_named(fn: pf.FuncDef, dotted_suffixes: Tuple[str, ...]) -> List[ast.Call]:
    return [c for c in pf.calls_in(fn) if any((pf.dotted(c.func) or '').endswith(sfx) for sfx in dotted_suffixes)]


def r4_python(ctx: Ctx) -> None:
    im = pf.load(INSTANCE)
    bm = pf.load(BASE)
    # Instance.deactivate reaches the procedure for live instances
    fn = im.func('Instance.deactivate')
    g = pf.cfg(fn)
    embs = [e for e in sf.embedded_in(im) if e.fn is fn and e.sql_text and e.stmts() and e.stmts()[0].kind == 'call' and e.stmts()[0].name.lower() == 'deactivate_instance']
    cons = f'{INSTANCE}::Instance.deactivate::live instance reaches CALL deactivate_instance'
    if not embs:
        ctx.bad('R4', cons, 'Instance.deactivate no longer issues CALL deactivate_instance: the jobs of a lost instance are never returned to Ready', im.path, fn.lineno)
    else:
        cn = g.node_of(embs[0].call)
        ctx.need(cn, 'Instance.deactivate: CALL not found in the CFG')
        esc = None
        for s in ('pending', 'active'):
            p = _pruned_path(fn, ['self._state', 'self.state'], s, lambda n: n is g.exit, lambda n: any(n is x for x in cn))
            if p is not None:
                esc = (s, p)
        ctx.check(esc is None, 'R4', cons, (f'for an instance that is {esc[0]} in memory, deactivate() can return without calling deactivate_instance (via ' + ' -> '.join(x.text()[:40] for x in esc[1][1:-1][-3:]) +
                  '): its jobs stay Creating / Running') if esc else '', im.path, embs[0].lineno)
    # every retirement path deactivates first
    for m, q, subjects, goal_sfx, what in (
            (im, 'Instance.mark_deleted', ['self._state', 'self.state'], None, 'CALL mark_instance_deleted'),
            (bm, 'InstanceCollection.call_delete_instance', ['instance.state', 'instance._state'], ('.delete_vm',), 'resource_manager.delete_vm'),
            (bm, 'InstanceCollection.remove_instance', ['instance.state', 'instance._state'], None, 'the removal from the collection')):
        fn = m.func(q)
        g = pf.cfg(fn)
        deact = g.find(lambda n: any((pf.dotted(c.func) or '').endswith('.deactivate') for c in pf.node_calls(n)))
        cons = f'{m.rel}::{q}::deactivates a live instance before {what}'
        if goal_sfx is not None:
            goals = g.find(lambda n: any((pf.dotted(c.func) or '').endswith(goal_sfx[0]) for c in pf.node_calls(n)))
        elif 'mark_deleted' in q:
            goals = [x for e in sf.embedded_in(m) if e.fn is fn and e.sql_text and 'mark_instance_deleted' in e.sql_text for x in g.node_of(e.call)]
        else:
            goals = [g.exit]
        ctx.need(goals, f'{m.rel}::{q}: {what} not found')
        esc = None
        for s in ('pending', 'active'):
            p = _pruned_path(fn, subjects, s, lambda n: any(n is x for x in goals), lambda n: any(n is d for d in deact))
            if p is not None:
                esc = s
        ctx.check(bool(deact) and esc is None, 'R4', cons, f'{q} can reach {what} for an instance that is {esc or "pending / active"} without calling deactivate(): the VM is deleted / the instance forgotten while its jobs are still '
                  'Creating / Running in the database, and nothing returns them to Ready', m.path, fn.lineno)
    # the monitor retires live instances whose VM is gone / terminated
    fn = bm.func('InstanceCollection.check_on_instance')
    RETIRE = ('.deactivate', '.call_delete_instance', '.remove_instance')
    hs = [h for h in ast.walk(fn) if isinstance(h, ast.ExceptHandler) and h.type is not None and 'VMDoesNotExist' in pf.nsrc(h.type)]
    ctx.need(hs, 'check_on_instance: handler for VMDoesNotExist not found')
    okh = all(any(isinstance(c, ast.Call) and (pf.dotted(c.func) or '').endswith(RETIRE) for b in h.body for c in pf.walk_shallow(b)) for h in hs)
    ctx.check(okh, 'R4', f'{BASE}::InstanceCollection.check_on_instance::VM does not exist -> instance retired', 'when the cloud reports that the VM no longer exists the instance is not deactivated / removed: '
              'its jobs stay Running for ever', bm.path, hs[0].lineno)
    chains = [n for n in fn.body if isinstance(n, ast.If) and 'isinstance(vm_state' in pf.nsrc(n.test)]
    ctx.need(len(chains) == 1, 'check_on_instance: the decision chain over (instance.state, vm_state) not recognised')
    for s in ('pending', 'active'):
        sa = kf.state_atom(['instance.state', 'instance._state'], s)

        def atom(e: ast.expr) -> Optional[bool]:
            if isinstance(e, ast.Call) and pf.dotted(e.func) == 'isinstance' and len(e.args) == 2 and pf.nsrc(e.args[0]) == 'vm_state':
                t = e.args[1]
                names = [pf.nsrc(x) for x in (t.elts if isinstance(t, ast.Tuple) else [t])]
                return 'VMStateTerminated' in names
            return sa(e)
        node: Optional[ast.If] = chains[0]
        verdict = None
        while node is not None:
            v = kf.py3(node.test, atom)
            if v is None:
                raise AnalysisError(f'check_on_instance: `{pf.nsrc(node.test)[:80]}` not decidable for (instance.state = {s}, vm_state terminated)')
            if v:
                top = [c for b in node.body for c in ([b.value] if isinstance(b, ast.Expr) else []) for c in ([c.value] if isinstance(c, ast.Await) else [c])]
                verdict = any(isinstance(c, ast.Call) and (pf.dotted(c.func) or '').endswith(RETIRE) for c in top)
                break
            node = node.orelse[0] if len(node.orelse) == 1 and isinstance(node.orelse[0], ast.If) else None
        ctx.check(bool(verdict), 'R4', f'{BASE}::InstanceCollection.check_on_instance::{s} instance with a terminated VM is deactivated',
                  f'for instance.state = {s} and a terminated VM the monitor takes ' + ('no branch' if verdict is None else f'the branch `{pf.nsrc(node.test)[:70]}`') + ' which does not deactivate / delete the instance: '
                  + ('a job-private instance that died before activating leaves its job Creating for ever' if s == 'pending' else 'a preempted worker leaves its jobs Running for ever'), bm.path, chains[0].lineno)
    # the orphan sweeper never selects the job's current attempt
    cm = pf.load(CANCELLER)
    fn = cm.func('Canceller.cancel_orphaned_attempts_loop_body')
    embs = [e for e in sf.embedded_in(cm) if e.fn is fn and e.sql_text and e.stmts() and e.stmts()[0].kind == 'select']
    ctx.need(len(embs) == 1, 'cancel_orphaned_attempts_loop_body: selection not found')
    st = embs[0].stmts()[0]
    rel_conj = [c for c in sf.conjuncts(st.where) if any(text(n).lower() in ('jobs.state', 'jobs.attempt_id') for n in sf.cols_in(c))]
    ctx.need(rel_conj, 'cancel_orphaned_attempts_loop_body: no conjunct on jobs.state / jobs.attempt_id')
    sel_current = []
    for s in ('Running', 'Creating'):
        def known(n: N, s=s) -> Any:
            t = text(n).lower()
            if t == 'jobs.state':
                return s
            if t in ('jobs.attempt_id', 'attempts.attempt_id'):
                return 'A'
            return UNKNOWN
        vals = [may(c, known) for c in rel_conj]
        if all(True in v for v in vals):
            ctx.need(all(v == {True} for v in vals), 'cancel_orphaned_attempts_loop_body: selection of the current attempt depends on atoms the analysis cannot evaluate')
            sel_current.append(s)
    ctx.check(not sel_current, 'R4', f'{CANCELLER}::Canceller.cancel_orphaned_attempts_loop_body::never selects the job\'s current attempt',
              f'the sweep selects the attempt that IS the current attempt of a {sel_current} job (conjuncts {[text(c) for c in rel_conj]}): every 60 s unschedule_job - whose guard matches exactly the current '
              'attempt - returns a healthy running job to Ready and kills its attempt; the job is rescheduled and killed again, it never finishes', cm.path, embs[0].lineno)
    # a job that cannot be scheduled at all is errored
    jm = pf.load(JOB)
    fn = jm.func('schedule_job')
    tries = [t for t in pf.walk_shallow(fn) if isinstance(t, ast.Try) and any(isinstance(c, ast.Call) and (pf.dotted(c.func) or '') == 'job_config' for b in t.body for c in ast.walk(b))]
    ctx.need(len(tries) == 1, 'job.schedule_job: try around job_config(..) not found')
    hs2 = [h for h in tries[0].handlers if h.type is None or (pf.dotted(h.type) or '') in ('Exception', 'BaseException')]
    okc = bool(hs2) and all(any(isinstance(c, ast.Call) and (pf.dotted(c.func) or '') == 'mark_job_errored' for b in h.body for c in pf.walk_shallow(b)) for h in hs2)
    ctx.check(okc, 'R4', f'{JOB}::schedule_job::job config failure -> Error', 'when the job\'s configuration cannot be built (missing secret, bad spec) the job is not marked Error: it stays Ready, is selected again on every '
              'scheduling pass, fails again - it never reaches a terminal state and its batch never completes', jm.path, tries[0].lineno)
    for rel, q, kind in ((POOL, 'PoolScheduler.schedule_loop_body', 'if'), (JPIM, 'JobPrivateInstanceManager.create_instances_loop_body', 'handler')):
        m = pf.load(rel)
        fn = m.func(q)
        cons = f'{rel}::{q}::no supported region -> Error'
        if kind == 'if':
            ifs = [n for n in pf.walk_shallow(fn) if isinstance(n, ast.If) and 'regions' in pf.nsrc(n.test) and 'supported_regions' in pf.nsrc(n.test)]
            ctx.need(len(ifs) == 1, f'{rel}::{q}: the test for unsupported regions not recognised')
            okr = _marks_errored(m, fn, ifs[0].body)
            ctx.need(okr is not None, f'{rel}::{q}: the branch for unsupported regions calls a helper that is not followed')
            line = ifs[0].lineno
        else:
            hs3 = [h for h in ast.walk(fn) if isinstance(h, ast.ExceptHandler) and h.type is not None and 'RegionsNotSupportedError' in pf.nsrc(h.type)]
            ctx.need(hs3, f'{rel}::{q}: handler for RegionsNotSupportedError not recognised')
            oks = [_marks_errored(m, fn, h.body) for h in hs3]
            ctx.need(all(o is not None for o in oks), f'{rel}::{q}: the RegionsNotSupportedError handler calls a helper that is not followed')
            okr = all(oks)
            line = hs3[0].lineno
        ctx.check(okr, 'R4', cons, 'a job none of whose regions is supported is not marked Error: no instance can ever take it, it stays Ready for ever', m.path, line)


def _marks_errored(m, fn, body) -> Optional[bool]:
    """Does this statement list mark the job Error?  True: it calls mark_job_errored directly or through a helper (nested def of `fn`, or
    module-level function) whose body does; None: it calls a local helper that cannot be followed (undecided -> the caller declines);
    False: it recognisably does not."""
    nested = {d.name: d for d in ast.walk(fn) if isinstance(d, (ast.FunctionDef, ast.AsyncFunctionDef)) and d is not fn}
    module_level = {d.name: d for d in m.tree.body if isinstance(d, (ast.FunctionDef, ast.AsyncFunctionDef))}

    def direct(stmts) -> bool:
        return any(isinstance(c, ast.Call) and (pf.dotted(c.func) or '').split('.')[-1] == 'mark_job_errored' for b in stmts for c in ast.walk(b))

    if direct(body):
        return True
    undecided = False
    for b in body:
        for c in ast.walk(b):
            if isinstance(c, ast.Call) and isinstance(c.func, ast.Name):
                d = nested.get(c.func.id) or module_level.get(c.func.id)
                if d is not None:
                    if direct(d.body):
                        return True
                    if any(isinstance(x, ast.Call) and isinstance(x.func, ast.Name) and (x.func.id in nested or x.func.id in module_level) for y in d.body for x in ast.walk(y)):
                        undecided = True
            elif isinstance(c, ast.Call) and isinstance(c.func, ast.Attribute) and isinstance(c.func.value, ast.Name) and c.func.value.id == 'self':
                undecided = True  # a method of the scheduler: not followed here
    return None if undecided else False


def r4_bounded_attempts(ctx: Ctx) -> None:
    """Termination under repeated instance failures needs a variant: each scheduling decision is preceded by the test
    `n_prior_attempts >= n_max_attempts -> mark Error, do not schedule`, with n_prior_attempts = COUNT of the job's attempts rows."""
    for rel, body_q, gen, dispatch in ((POOL, 'PoolScheduler.schedule_loop_body', 'user_runnable_jobs', 'schedule_job'),
                                       (JPIM, 'JobPrivateInstanceManager.create_instances_loop_body', 'user_runnable_jobs', 'mark_job_creating')):
        m = pf.load(rel)
        fn = m.func(body_q)
        cons = f'{rel}::{body_q}::attempts are bounded by n_max_attempts'
        loops = kf.record_loops(m, fn, gen)
        ctx.need(len(loops) == 1, f'{rel}::{body_q}: loop over {gen}(..) not found')
        loop = loops[0]
        mentions = [n for n in ast.walk(fn) if (isinstance(n, ast.Compare) or isinstance(n, ast.Call)) and 'n_max_attempts' in pf.nsrc(n) and not isinstance(n, ast.JoinedStr)
                    and not (isinstance(n, ast.Call) and (pf.dotted(n.func) or '').startswith('log.'))]
        sql_bound = any(e.sql_text and any('n_max_attempts' in text(c) for st in e.stmts() if st.kind == 'select' for c in sf.conjuncts(st.where) + sf.conjuncts(getattr(st, 'having', None)))
                        for e in sf.embedded_in(m) if e.fn is not None and fn in [e.fn] + cf.enclosing_funcs(m, e.fn))
        ctx.need(not sql_bound, f'{cons}: the bound is applied inside the SQL selection; not modelled')
        tests = [n for n in pf.walk_shallow(loop) if isinstance(n, ast.If) and isinstance(n.test, ast.Compare) and len(n.test.ops) == 1
                 and {pf.nsrc(pf.expand_locals(fn, n.test.left)), pf.nsrc(pf.expand_locals(fn, n.test.comparators[0]))} == {"record['n_prior_attempts']", "record['n_max_attempts']"}]
        if not tests:
            ctx.need(not [x for x in mentions if isinstance(x, ast.Compare)], f'{cons}: n_max_attempts is compared in a form that is not recognised')
            ctx.bad('R4', cons, f'{body_q} no longer compares the number of prior attempts with n_max_attempts before scheduling: a job whose attempts keep ending without a result (preempted or failing workers) is '
                    'rescheduled for ever - every attempt finishes, the job never reaches a terminal state', m.path, loop.lineno)
            continue
        t = tests[0]
        left_prior = pf.nsrc(pf.expand_locals(fn, t.test.left)) == "record['n_prior_attempts']"
        op = t.test.ops[0]
        fires_when_many = isinstance(op, (ast.GtE, ast.Gt)) if left_prior else isinstance(op, (ast.LtE, ast.Lt))
        errs_ = _marks_errored(m, fn, t.body)
        ctx.need(errs_ is not None, f'{cons}: the branch of the bound test calls a helper that is not followed')
        errs = bool(errs_)
        g = pf.cfg(fn)
        tn = [n for n in g.find(lambda n: n.kind == 'test' and n.ast is t.test)]
        disp = g.find(lambda n: any(isinstance(x, ast.Name) and x.id in ('schedule_with_error_handling', 'create_instance_with_error_handling') for c in pf.node_calls(n) for x in ast.walk(c)))
        ctx.need(tn and disp, f'{cons}: test / dispatch not found in the CFG')
        head = g.find(lambda n: n.kind == 'loop' and n.ast is loop)
        leaks = g.path_avoiding(tn[0], lambda n: any(n is d for d in disp), lambda n: any(n is h for h in head), edge_ok=lambda a, b, lab: lab != 'exc' and not (a is tn[0] and lab == 'F')) is not None
        dominated = all(g.dominated_by(d, lambda n: n is tn[0]) for d in disp)
        ctx.check(fires_when_many and errs and not leaks and dominated, 'R4', cons,
                  ('the test `' + pf.nsrc(t.test) + '` ' + ('does not fire when the attempts have reached the maximum' if not fires_when_many else 'does not mark the job Error' if not errs else
                   'does not keep the job from being scheduled again in the same iteration' if leaks else 'does not precede every scheduling decision') +
                   ': a job whose attempts keep ending without a result is rescheduled without bound and never reaches a terminal state'), m.path, t.lineno)
        # n_prior_attempts counts the job's attempts
        gfn = m.func(body_q + '.' + gen)
        okc = []
        for e in sf.embedded_in(m):
            if e.fn is gfn and e.stmts() and e.stmts()[0].kind == 'select' and sf.table_names(e.stmts()[0].frm)[:1] == ['jobs']:
                st = e.stmts()[0]
                cols = [c for c, al in st.cols if (al or '').lower() == 'n_prior_attempts']
                joined = any(j.ref.kind == 'table' and j.ref.name.lower() == 'attempts' and j.on is not None and
                             {'(jobs.batch_id = attempts.batch_id)', '(jobs.job_id = attempts.job_id)'} <= {text(c).lower() for c in sf.conjuncts(j.on)} for j in st.frm.joins)
                okc.append(len(cols) == 1 and cols[0].kind == 'func' and cols[0].name == 'COUNT' and len(cols[0].args) == 1 and text(cols[0].args[0]).lower().startswith('attempts.') and joined)
        ctx.need(okc, f'{rel}::{body_q}.{gen}: job queries not found')
        ctx.check(all(okc), 'R4', f'{rel}::{body_q}.{gen}::n_prior_attempts counts the job\'s attempts', 'n_prior_attempts is not COUNT(attempts.<col>) over the job\'s own attempts rows: the bound on the number of attempts '
                  'compares something else', m.path, gfn.lineno)


def r4_errored_calls(ctx: Ctx) -> None:
    """mark_job_errored is the only way out of Ready for a job that can never be scheduled.  It calls methods of its `format_version`
    argument before it reaches mark_job_complete: a call site that hands it the raw database column instead of a BatchFormatVersion
    raises AttributeError inside the error path and the job is never marked Error (type / provenance rule, sibling agreement)."""
    jm = pf.load(JOB)
    callee = jm.func('mark_job_errored')
    used = sorted({c.func.attr for c in pf.calls_in(callee) if isinstance(c.func, ast.Attribute) and isinstance(c.func.value, ast.Name) and c.func.value.id == 'format_version'})
    ctx.need(used, 'mark_job_errored: no method of format_version is called any more (the argument type no longer matters)')
    mc = [c for c in pf.calls_in(callee) if (pf.dotted(c.func) or '') == 'mark_job_complete']
    ctx.need(len(mc) == 1, 'mark_job_errored: call of mark_job_complete not found')
    n = 0
    for rel in (JOB, POOL, JPIM):
        m = pf.load(rel)
        for q, fn in m.functions():
            for c in pf.calls_in(fn):
                if not (isinstance(c.func, ast.Name) and c.func.id == 'mark_job_errored'):
                    continue
                n += 1
                arg = kf.call_arg(c, callee, 'format_version')
                ctx.need(arg is not None, f'{rel}::{q}: format_version argument of mark_job_errored not bound')
                scopes = [fn] + cf.enclosing_funcs(m, fn)
                val = arg
                for sc in scopes:
                    v2 = pf.expand_locals(sc, val)
                    if v2 is not val:
                        val = v2
                        break
                msg_arg = kf.call_arg(c, callee, 'error_msg')
                msg_txt = pf.const_str(msg_arg) if msg_arg is not None else None
                cons = f'{rel}::{q}::mark_job_errored(format_version={pf.nsrc(arg)})' + (f' [{msg_txt[:30]}]' if msg_txt else '')
                if isinstance(val, ast.Call) and (pf.dotted(val.func) or '').split('.')[-1] == 'BatchFormatVersion':
                    ctx.ok('R4', cons, 'BatchFormatVersion')
                elif isinstance(val, ast.Subscript) and pf.const_str(val.slice) == 'format_version':
                    ctx.bad('R4', cons, f'mark_job_errored calls {" / ".join("format_version." + u + "()" for u in used)} but this call site passes the raw column `{pf.nsrc(val)}` (an int), not a BatchFormatVersion - every other '
                            'call site wraps it. The call raises AttributeError before mark_job_complete is reached, inside the handler that was meant to end the job: the job is never marked Error, stays '
                            'Ready, and the same failure repeats on every pass of the loop - it never reaches a terminal state and its batch never completes', m.path, c.lineno)
                else:
                    raise AnalysisError(f'{cons}: cannot tell whether `{pf.nsrc(val)}` is a BatchFormatVersion')
    ctx.need(n >= 4, f'only {n} call sites of mark_job_errored found')


# ------------------------------------------------------------------------------------------------
# R5 a single current attempt
# ------------------------------------------------------------------------------------------------

def r5(ctx: Ctx, prog: sf.SqlProgram) -> None:
    n = 0
    for name, r in sorted(prog.routines.items()):
        for st in sf.all_statements(r.ast.body):
            v = kf.jobs_set(st, 'attempt_id')
            sv = kf.jobs_set(st, 'state')
            if v is None:
                if sv is not None and {x.value for x in sv.walk() if x.kind == 'lit' and isinstance(x.value, str)} & {'Running', 'Creating'}:
                    ctx.bad('R5', f'sql::{name}::jobs.state := {text(sv)} records the attempt', f'{name} makes the job Creating / Running without writing jobs.attempt_id in the same statement (`{text(st)[:120]}`): '
                            'the job runs with no (or a stale) designation of its current attempt - unschedule_job(<the running attempt>) never matches, so a cancelled running job can never be returned to Ready, '
                            'and the orphan sweeper (jobs.attempt_id != attempts.attempt_id) treats the running attempt as an orphan', r.file, r.line_of(st))
                continue
            n += 1
            cons = f'sql::{name}::jobs.attempt_id := {text(v)}'
            if sv is None:
                ctx.bad('R5', cons, f'{name} changes jobs.attempt_id without a state transition in the same statement (`{text(st)[:120]}`): the designation of the current attempt moves while the job '
                        'stays Creating / Running - reports of the attempt that is really running are then refused as stale, or two attempts are accepted', r.file, r.line_of(st))
                continue
            tos = {x.value for x in sv.walk() if x.kind == 'lit' and isinstance(x.value, str)} | ({'<new_state>'} if any(text(x).lower() == 'new_state' for x in sv.walk()) else set())
            ctx.need(tos, f'{name}: state expression `{text(sv)}` not enumerable')
            is_param = v.kind == 'col' and len(v.parts) == 1 and v.parts[0].lower() == 'in_attempt_id'
            if tos & {'Running', 'Creating'}:
                ctx.check(is_param, 'R5', cons, f'{name} makes the job {sorted(tos)} but records `{text(v)}` instead of in_attempt_id as its current attempt: unschedule_job(<that attempt>) no longer matches '
                          '(a cancelled running job can never be returned to Ready) and the orphan sweeper takes the running attempt for an orphan and kills it', r.file, r.line_of(st), detail=sorted(tos))
            else:
                ctx.ok('R5', cons, {'with state': sorted(tos)})
    ctx.need(n >= 5, f'only {n} writers of jobs.attempt_id found')
    bad_py = []
    for rel in _py_mentioning('jobs', 'attempt_id', 'update'):
        m = pf.load(rel)
        for e in sf.embedded_in(m):
            if e.sql_text and 'attempt_id' in e.sql_text:
                for st in e.stmts():
                    if kf.jobs_set(st, 'attempt_id') is not None:
                        bad_py.append((m, e))
    ctx.check(not bad_py, 'R5', 'batch/batch::jobs.attempt_id is written only by the stored procedures', (f'{bad_py[0][0].rel}::{bad_py[0][1].qual} writes jobs.attempt_id outside the guarded procedures') if bad_py else '',
              bad_py[0][0].path if bad_py else '', bad_py[0][1].lineno if bad_py else 0)

    def attempt_env(cur_names: Set[str], cur: Any, inn: Any, extra: Optional[Dict[str, Any]] = None):
        def known(n_: N) -> Any:
            if n_.kind == 'col' and len(n_.parts) == 1:
                t = n_.parts[0].lower()
                if t in cur_names:
                    return cur
                if t == 'in_attempt_id':
                    return inn
                if extra and t in extra:
                    return extra[t]
            return UNKNOWN
        return known
    # a job that is Running keeps its attempt: the scheduling procedures refuse it
    for name in ('schedule_job', 'mark_job_started', 'mark_job_creating'):
        rr = prog.routine(name)
        aa = rr.ast
        sv_ = kf.job_row_vars(aa, 'state')
        ctx.need(sv_, f'{name}: job state not read into a variable')
        for st, guard in sf.guarded_statements(aa.body):
            v = kf.jobs_set(st, 'attempt_id')
            if v is None or not (v.kind == 'col' and v.parts[-1].lower() == 'in_attempt_id'):
                continue
            def known(n_: N) -> Any:
                if n_.kind == 'col' and ((len(n_.parts) == 1 and n_.parts[0].lower() in sv_) or (n_.parts[-1].lower() == 'state' and (len(n_.parts) == 1 or n_.parts[-2].lower() == 'jobs'))):
                    return 'Running'
                return UNKNOWN
            g2 = tuple(guard) + tuple((c, True) for c in sf.conjuncts(st.where))
            can = all(pol in may(c, known) for c, pol in g2)
            ctx.check(not can, 'R5', f'sql::{name}::a Running job is not given another attempt', f'{name} can write jobs.attempt_id := in_attempt_id for a job that is Running (path condition '
                      f'{[("" if p else "NOT ") + text(c) for c, p in guard]}): the attempt that is running stops being the current one without being ended - its reports are refused as stale while a second attempt '
                      'runs as the current one (C04-R1 does not see this: Running -> Running is no transition)', rr.file, rr.line_of(st))
    # mark_job_complete: stale exactly for another attempt
    r = prog.routine('mark_job_complete')
    a = r.ast
    avars = kf.job_row_vars(a, 'attempt_id')
    svars = kf.job_row_vars(a, 'state')
    ctx.need(avars and svars, 'mark_job_complete: jobs.attempt_id / jobs.state of (in_batch_id, in_job_id) are not read into variables')
    cons = 'sql::mark_job_complete::stale-report test'
    locked = all((q.lock or '').startswith('FOR UPDATE') for q in avars.values())
    ctx.check(locked, 'R5', cons + '::current attempt read FOR UPDATE', 'the attempt id the report is compared with is not read FOR UPDATE from the job row: a concurrent schedule / unschedule can change the current attempt between the '
              'read and the state write', r.file, r.line)
    chains = [st for st in a.body if st.kind == 'if' and any(any(text(x).lower() in svars for x in sf.cols_in(c)) for c, _ in st.branches)]
    ctx.need(len(chains) == 1, 'mark_job_complete: decision chain not recognised')
    ch = chains[0]
    rows = []
    wrong = None
    for cur, inn, want_live in ((None, 'A', True), ('A', 'A', True), ('A', 'B', False)):
        live = None
        for i, (c, body) in enumerate(ch.branches):
            mv = may(c, attempt_env(set(avars), cur, inn, {k: 'Running' for k in svars}))
            ctx.need(len(mv) == 1, f'mark_job_complete: branch condition `{text(c)[:80]}` depends on more than the attempt ids and the job state')
            if mv == {True}:
                live = any(kf.jobs_set(s2, 'state') is not None for s2 in sf.all_statements(body))
                break
        rows.append((cur, inn, live))
        if live is None or live != want_live:
            wrong = (cur, inn, live)
    ctx.check(wrong is None, 'R5', cons + '::truth table over (jobs.attempt_id, reported attempt)',
              (f'for a Running job with jobs.attempt_id = {wrong[0]!r} and a report for attempt {wrong[1]!r} the procedure ' + ('accepts the report and completes the job' if wrong[2] else 'refuses the report') + ': ' +
               ('the result of an attempt that was superseded (its instance was preempted, the job rescheduled) is recorded while the current attempt is still running - two attempts are treated as current'
                if wrong[2] else 'the only attempt of the job can never report completion; the job stays Running for ever')) if wrong else '', r.file, r.line_of(ch), detail=[list(map(repr, x)) for x in rows])
    # unschedule_job: only the current attempt returns the job to Ready
    r = prog.routine('unschedule_job')
    a = r.ast
    avars = kf.job_row_vars(a, 'attempt_id')
    svars = kf.job_row_vars(a, 'state')
    ctx.need(avars and svars, 'unschedule_job: jobs.attempt_id / jobs.state are not read into variables')
    cons = 'sql::unschedule_job::only the current attempt returns the job to Ready'
    ctx.check(all((q.lock or '').startswith('FOR UPDATE') for q in avars.values()), 'R5', cons + '::current attempt read FOR UPDATE', 'jobs.attempt_id is not read FOR UPDATE before it is compared', r.file, r.line)
    writes = [(st, g) for st, g in sf.guarded_statements(a.body) if kf.jobs_set(st, 'state') is not None]
    ctx.need(len(writes) == 1, 'unschedule_job: state write not found exactly once')
    st, guard = writes[0]
    wrong = None
    for s in ('Creating', 'Running'):
        for cur, inn in (('A', 'B'), (None, 'A')):
            gv = kf.guard_values(guard, attempt_env(set(avars), cur, inn, {k: s for k in svars}))
            ctx.need(len(gv) == 1, f'unschedule_job: the guard of the state write depends on {kf.unknown_atoms(guard, set(avars) | set(svars) | {"in_attempt_id"})}')
            if gv == {True}:
                wrong = (s, cur, inn)
    ctx.check(wrong is None, 'R5', cons + '::truth table', (f'a {wrong[0]} job whose current attempt is {wrong[1]!r} is returned to Ready by unschedule_job(attempt {wrong[2]!r}) (path condition '
              f'{[("" if p else "NOT ") + text(c) for c, p in guard]}). History: the canceller / orphan sweeper join attempts on (batch_id, job_id) only and so call unschedule_job for OLD attempts of a job too; '
              'the job is returned to Ready while its current attempt keeps running, is scheduled again, and two attempts run as the current one') if wrong else '', r.file, r.line_of(st))


def run(ctx: Ctx) -> None:
    ctx.explanation = ('Partial claim: structural necessary conditions of the job lifecycle protocol (coverage truth tables, loop registration and wake-up, '
                       'instance loss, single current attempt). The interleaving-level liveness / mutual-exclusion argument is NOT decided.')
    ctx.rule('R1', 'progress coverage: every live (state, always_run, cancelled, group-cancelled) class is selected by a loop that hands it to a mover whose procedure admits the state', 26)
    ctx.rule('R2', 'always-run jobs of a cancelled batch still run: selected regardless of the flags; procedures consult cancellation only through is_job_cancelled', 6)
    ctx.rule('R3', 'every loop is live: started by its component on every path, components created at start-up, runners never give up, every event has a periodic setter', 24)
    ctx.rule('R4', 'an attempt that can no longer finish is ended: instance loss returns Creating and Running jobs to Ready; no other way out of the live instance states; unschedulable jobs are errored', 27)
    ctx.rule('R5', 'single current attempt: jobs.attempt_id moves only with the state, := in_attempt_id on Creating / Running; stale iff another attempt; unschedule only for the current attempt', 14)
    prog = sf.load_program()
    schema = jg.full_schema(prog)
    ctx.unit('effective_routines', len(prog.routines))
    r1_cancellers(ctx, schema)
    r1_schedulers(ctx, schema)
    r1_sql(ctx, prog)
    r1_domain(ctx, prog)
    r2_sql(ctx, prog)
    r3(ctx)
    r4_sql(ctx, prog)
    r4_python(ctx)
    r4_bounded_attempts(ctx)
    r4_errored_calls(ctx)
    r5(ctx, prog)
