"""C40 Weighted transfer semaphore is safe and releases on cancellation.

Decides from the syntax tree / CFG of hailtop/aiotools/weighted_semaphore.py and hailtop/aiotools/fs/copier.py (nothing is run):
  R1 safety      every `self.value -= n` is reached only through a test edge implying `self.value >= n`, atomically; in release the
                 wake-up (`event.set()`), the removal of the waiter and the decrement of *that waiter's* weight go together, and the
                 (n, event) layout agrees between acquire (writer) and release (reader)
  R2 pairing     _AcquireManager acquires and releases the same stored weight, releases unconditionally on exit;
                 every use of the transfer semaphore in copier.py is `async with ....acquire_manager(w)` (or construction / hand-over)
  R3 cancellation every `await` that follows the registration of a waiter (`self.events.add`) has, on its CancelledError exit,
                 a clean-up that deregisters the waiter and hands back a weight that was already granted
  R4 precondition weights requested in copier.py are bounded by the capacity the semaphore is built with
Does not decide: fairness/starvation of large requests (the waiter list is ordered by weight by design), schedules as such.
"""
from __future__ import annotations

import ast
from fractions import Fraction
from typing import List, Optional

from engines import asyncfacts as af
from engines import pyfacts as pf
from engines.common import AnalysisError, Ctx

META = dict(
    category='other',
    text='Structural necessary conditions decided on the CFG: guard dominance with await-atomicity for every decrement (guards evaluated '
         'exhaustively over the order relation x waiter-list emptiness), coupling of wake-up/removal/charge in release, acquire/release pairing '
         'of the context manager and closure over all use sites in the copier, and a cancellation analysis of every await that follows a '
         'waiter registration (which handlers/finally blocks run when it raises CancelledError).  Not a proof over interleavings.',
    note='Trusted: CPython ast; engines/pyfacts CFG; asyncio switches only at await; Task.cancel raises CancelledError at the pending await. '
         'Not decided: starvation, SortedKeyList semantics beyond add/[0]/pop(0).',
    technique='static analysis: CFG guard dominance + await-atomicity + cancellation-exit analysis + use-site closure',
    design_ref='DESIGN.md §3 C40, §4 F3',
)

F = 'hail/python/hailtop/aiotools/weighted_semaphore.py'
CP = 'hail/python/hailtop/aiotools/fs/copier.py'
CLS = 'WeightedSemaphore'
CM = '_AcquireManager'
VAL = 'self.value'
EV = 'self.events'


def _strip_cast(e: ast.AST) -> ast.AST:
    while isinstance(e, ast.Call) and pf.dotted(e.func) in ('cast', 'typing.cast') and len(e.args) == 2:
        e = e.args[1]
    return e


def _release(ctx: Ctx, m: pf.Module, cls: ast.ClassDef, guards: List[af.Guarded], layout: Optional[List[str]]) -> None:
    qn = f'{CLS}.release'
    fn = af.method(m, cls, 'release')
    ctx.need(isinstance(fn, ast.FunctionDef), f'{qn} is a coroutine: its wake-up loop is no longer atomic')
    cfg = pf.cfg(fn)
    params = [a.arg for a in fn.args.args]
    ctx.need(len(params) == 2, f'release parameters changed: {params}')
    w = params[1]
    wl = af.wake_loop(m, cls, 'release', VAL, EV)
    ctx.need(pf.nsrc(wl.head.value.slice) == '0', f'{qn}: waiter examined is `{pf.nsrc(wl.head.value)}`, not the first of the list')  # type: ignore[union-attr]
    L = af.test_node(cfg, wl.stmt.test)  # type: ignore[union-attr]
    incs = af.stmt_nodes(cfg, lambda n: isinstance(n.ast, ast.AugAssign) and isinstance(n.ast.op, ast.Add) and pf.nsrc(n.ast.target) == VAL)
    okinc = len(incs) == 1 and pf.nsrc(incs[0].ast.value) == w and cfg.dominated_by(cfg.exit, lambda n: n is incs[0])  # type: ignore[union-attr]
    ctx.check(okinc, 'R2', f'{F}::{qn}::give back', f'release does not add exactly the released weight `{w}` back to {VAL} once on every path '
              f'(found {[n.text() for n in incs]})', m.path, fn.lineno)
    gs = [g for g in guards if g.fnname == 'release']
    if len(gs) != 1:
        ctx.need(not gs, f'{qn}: {len(gs)} guarded decrements')
        if not af.stmt_nodes(cfg, lambda n: isinstance(n.ast, ast.AugAssign) and isinstance(n.ast.op, ast.Sub) and pf.nsrc(n.ast.target) == VAL):
            ctx.bad('R1', f'{F}::{qn}::wake::value -= n', 'release wakes waiters but never subtracts their weight: the woken holder runs without being '
                    'charged (over-grant)', m.path, fn.lineno)
        af.blocked(ctx, 'R1', 'R1')
        return
    g = gs[0]
    ctx.need(g.test.ast is wl.fit.test, f'{qn}: the decrement is not guarded by the fit test of the wake loop')  # type: ignore[union-attr]
    ctx.need(g.w in wl.names and len(wl.names) == 2, f'{qn}: decrements `{g.w}`, which is not read from the head of the waiter list')
    # the names read from the head may only be re-bound to themselves (cast)
    for nme in wl.names:
        for d in pf.assignments(fn).get(nme, []):
            if d is wl.head:
                continue
            ctx.need(isinstance(d, ast.expr) and pf.nsrc(_strip_cast(d)) == nme, f'{qn}: `{nme}` is re-bound to `{pf.nsrc(d)}` inside release')
    widx = wl.names.index(g.w)
    evname = wl.names[1 - widx]
    reader = ['weight' if i == widx else 'event' for i in range(2)]
    if layout is not None:
        ctx.check(reader == layout, 'R1', f'{F}::{CLS}::waiter element layout',
                  f'acquire registers ({", ".join(layout)}) but release unpacks the head as ({", ".join(reader)}): the weight charged is not the waiter\'s',
                  m.path, wl.head.lineno)  # type: ignore[union-attr]
    # wake = set + remove head + decrement on every path where the head fits
    cons = f'{F}::{qn}::wake'
    setn = af.stmt_nodes(cfg, lambda n: af.node_is_call(n, f'{evname}.set') is not None)
    popn = af.stmt_nodes(cfg, lambda n: (c := af.node_is_call(n, f'{EV}.pop')) is not None and [pf.nsrc(a) for a in c.args] == ['0'])
    anypop = af.stmt_nodes(cfg, lambda n: any(pf.dotted(c.func) in (f'{EV}.pop', f'{EV}.remove', f'{EV}.discard', f'{EV}.clear') for c in pf.node_calls(n)))
    for x in anypop:
        if x not in popn:
            raise AnalysisError(f'{qn}: unrecognised removal `{x.text()}` from the waiter list')
    goal = (lambda n: n is L or n is cfg.exit or n is cfg.raise_exit)
    parts = {'event.set()': setn, 'events.pop(0)': popn, 'value -= n': [g.dec]}
    why = {'event.set()': 'the waiter is removed and charged but never resumed (its weight is lost)',
           'events.pop(0)': 'the same waiter is charged again by the next iteration / release',
           'value -= n': 'the woken holder runs without being charged (over-grant)'}
    for what, nodes in parts.items():
        c2 = cons + f'::{what}'
        if not nodes:
            ctx.bad('R1', c2, f'waking the head never performs {what}: {why[what]}', m.path, g.test.lineno)
            continue
        p = af.must_pass(cfg, g.test, goal, lambda n, nodes=nodes: any(n is x for x in nodes), first_label=g.label)
        only = all(af.every_path_uses_edge(cfg, x, g.test, g.label) for x in nodes)
        ctx.check(p is None and only, 'R1', c2, f'{what} is not performed exactly on the paths where the head fits: {why[what]}', m.path, nodes[0].lineno)


def _acquire(ctx: Ctx, m: pf.Module, cls: ast.ClassDef, guards: List[af.Guarded]) -> Optional[List[str]]:
    qn = f'{CLS}.acquire'
    fn = af.method(m, cls, 'acquire')
    ctx.need(isinstance(fn, ast.AsyncFunctionDef), 'acquire is not a coroutine')
    cfg = pf.cfg(fn)
    params = [a.arg for a in fn.args.args]
    ctx.need(len(params) == 2, f'acquire parameters changed: {params}')
    w = params[1]
    gs = [g for g in guards if g.fnname == 'acquire']
    if len(gs) == 1:
        ctx.need(gs[0].w == w, f'{qn}: fast path decrements `{gs[0].w}`, not the requested weight `{w}`')
    else:
        ctx.need(not gs, f'{qn}: {len(gs)} guarded decrements')
        af.blocked(ctx, 'R1', 'R1')
    # registration
    regs = af.stmt_nodes(cfg, lambda n: af.node_is_call(n, f'{EV}.add') is not None)
    ctx.need(len(regs) == 1, f'{qn}: expected one waiter registration `{EV}.add(...)`, found {len(regs)}')
    R = regs[0]
    call = af.node_is_call(R, f'{EV}.add')
    ctx.need(call is not None and len(call.args) == 1, f'{qn}: registration call shape not recognised')
    reg_arg = pf.resolve_expr(fn, call.args[0])  # `entry = (n, event); events.add(entry)` is the same registration
    ctx.need(isinstance(reg_arg, ast.Tuple) and len(reg_arg.elts) == 2
             and all(isinstance(e, ast.Name) for e in reg_arg.elts), f'{qn}: registered element is not a pair of names')
    names = [e.id for e in reg_arg.elts]  # type: ignore[union-attr,attr-defined]
    ctx.need(w in names, f'{qn}: registered element {names} does not carry the weight `{w}`')
    evname = [x for x in names if x != w][0]
    layout = ['weight' if x == w else 'event' for x in names]
    # the granted fast path must not also register
    if len(gs) == 1:
        ctx.check(not af.direct(cfg, gs[0].dec, R), 'R1', f'{F}::{qn}::fast path exclusive',
                  'the granted fast path also registers a waiter: the request is charged twice', m.path, R.lineno)
    # R3: awaits after the registration
    aw_nodes = [n for n in af.stmt_nodes(cfg, pf.node_has_await) if af.direct(cfg, R, n)]
    ctx.need(aw_nodes, f'{qn}: no await follows the registration (idiom not recognised)')
    for n in aw_nodes:
        for a in pf.walk_shallow(n.ast):
            if not isinstance(a, ast.Await):
                continue
            cons = f'{F}::{qn}::{pf.nsrc(a)}'
            blocks, _prop = af.cancel_blocks(m, fn, a)
            calls = [c for _, b in blocks for s in b for c in ast.walk(s) if isinstance(c, ast.Call)]
            dereg = [c for c in calls if pf.dotted(c.func) in (f'{EV}.remove', f'{EV}.discard', f'{EV}.pop')]
            hand = [c for c in calls if pf.dotted(c.func) == 'self.release'] + \
                   [s for _, b in blocks for st in b for s in ast.walk(st) if isinstance(s, ast.AugAssign) and isinstance(s.op, ast.Add) and pf.nsrc(s.target) == VAL]
            if not dereg and not hand:
                ctx.bad('R3', cons, f'`{pf.nsrc(a)}` follows `{R.text()}` but no except/finally runs when it raises CancelledError: the cancelled waiter stays in '
                        f'{EV}; the next release that fits pops it, subtracts its weight and sets an event nobody waits on, so that capacity is never returned '
                        f'(and a waiter cancelled just after being granted never releases either)', m.path, a.lineno)
                continue
            ctx.check(bool(dereg), 'R3', cons + '::deregister', 'the cancellation clean-up never removes the waiter from the list: a later release grants it',
                      m.path, a.lineno)
            ctx.check(bool(hand), 'R3', cons + '::hand back', 'the cancellation clean-up never hands back a weight that release had already granted '
                      '(cancel arriving between event.set() and the resumption of the waiter)', m.path, a.lineno)
    # wait is on the registered event
    wait_ok = any(isinstance(a, ast.Await) and pf.call_name(a) == f'{evname}.wait' for n in aw_nodes for a in ast.walk(n.ast))
    ctx.check(wait_ok, 'R1', f'{F}::{qn}::waits on registered event', f'the waiter does not wait on the event `{evname}` it registered: it resumes without a grant',
              m.path, R.lineno)
    return layout


def _manager_generator(ctx: Ctx, m: pf.Module, am: pf.FuncDef) -> None:
    """acquire_manager written as an @asynccontextmanager generator: same obligations as the class form, on the generator's CFG (exception
    edges included): the release is reached only after the acquire COMPLETED (an acquire inside the `try` whose `finally` releases gives the
    weight back although it was never granted -- cancellation while queued, or acquire's own hand-back), every exit after the acquire releases
    exactly once, with the weight that was acquired, and nothing suspends between the grant and the protected region."""
    cons = f'{F}::{CLS}.acquire_manager'
    ctx.need(isinstance(am, ast.AsyncFunctionDef), f'{cons}: generator form is not `async def`')
    params = [a.arg for a in am.args.args]
    ctx.need(len(params) == 2, f'{cons}: parameters changed: {params}')
    recv, w = params
    cfg = pf.cfg(am)
    ys = [n for n in cfg.nodes if n.ast is not None and n.kind in ('stmt', 'return') and any(isinstance(x, (ast.Yield, ast.YieldFrom)) for x in pf.walk_shallow(n.ast))]
    ctx.need(len(ys) == 1, f'{cons}: expected exactly one yield in the context manager, found {len(ys)}')
    Y = ys[0]
    acq = af.stmt_nodes(cfg, lambda n: any(isinstance(x, ast.Await) and pf.call_name(x) == f'{recv}.acquire' for x in ast.walk(n.ast)))
    rel = af.stmt_nodes(cfg, lambda n: af.node_is_call(n, f'{recv}.release') is not None)
    ok = len(acq) == 1 and cfg.dominated_by(Y, lambda n: n is acq[0]) and not af.direct(cfg, acq[0], acq[0])
    if ok:
        c = af.node_is_call(acq[0], f'{recv}.acquire')
        ok = c is not None and [pf.nsrc(a) for a in c.args] == [w] and not c.keywords
        later = [n for n in af.stmt_nodes(cfg, pf.node_has_await) if n is not acq[0] and n is not Y and af.direct(cfg, acq[0], n)]
        ok = ok and not later
    ctx.check(ok, 'R2', f'{F}::{CM}.__aenter__', f'acquire_manager does not `await {recv}.acquire({w})` exactly once before its yield as its only suspension point', m.path, am.lineno)
    if not (len(acq) == 1 and rel):
        ctx.check(bool(rel), 'R2', f'{F}::{CM}.__aexit__', 'acquire_manager never releases the acquired weight', m.path, am.lineno)
        return
    A = acq[0]
    # (a) release only after a completed acquire: no path to a release that skips the acquire or leaves it through its exception edge
    skip = cfg.path_avoiding(cfg.entry, lambda n: any(n is r for r in rel), lambda n: n is A)
    viaexc = cfg.path_avoiding(A, lambda n: any(n is r for r in rel), lambda n: n is A, edge_ok=lambda a, b, lab: not (a is A) or lab == 'exc')
    # (b) after the acquire completed every exit passes exactly one release of the same weight
    leak = af.must_pass(cfg, A, lambda n: n is cfg.exit or n is cfg.raise_exit, lambda n: any(n is r for r in rel), edge_ok=lambda a, b, lab: not (a is A and lab == 'exc'))
    twice = any(af.direct(cfg, r1, r2) for r1 in rel for r2 in rel)
    args_ok = all((c := af.node_is_call(r, f'{recv}.release')) is not None and [pf.nsrc(a) for a in c.args] == [w] and not c.keywords for r in rel)
    pre = [n for n in cfg.nodes if n.ast is not None and pf.node_has_await(n) and n is not A and n is not Y and any(af.direct(cfg, n, r) for r in rel)]
    msg = None
    if skip is not None or viaexc is not None:
        msg = (f'`{rel[0].text()}` is reached when `await {recv}.acquire({w})` did NOT complete (the acquire sits inside the try whose finally releases): a waiter cancelled while queued, or '
               f'one that acquire already handed back, releases {w} it never held -- value exceeds max and later acquirers are admitted beyond capacity')
    elif not any(lab == 'exc' for _, lab in Y.succ):
        msg = ('the `yield` is not protected by try/finally: when the body of `async with` raises or is cancelled the exception is thrown into the generator at the yield and the '
               'release is skipped -- capacity is lost for good')
    elif leak is not None:
        msg = f'after the acquire completed the exit via `{leak[-2].text() if len(leak) > 1 else "?"}` does not release the weight: capacity is lost for good'
    elif twice:
        msg = 'one exit releases the weight twice'
    elif not args_ok:
        msg = f'the released weight is not the acquired `{w}`'
    elif pre:
        msg = f'`{pre[0].text()}` suspends before the release: a cancellation there skips it'
    ctx.check(msg is None, 'R2', f'{F}::{CM}.__aexit__', msg or '', m.path, rel[0].lineno)
    ctx.ok('R2', f'{F}::{CLS}.acquire_manager', '@asynccontextmanager generator form')


def _manager(ctx: Ctx, m: pf.Module) -> None:
    cls0 = m.cls(CLS)
    am0 = af.method(m, cls0, 'acquire_manager')
    if any(d.split('.')[-1] == 'asynccontextmanager' for d in pf.decorator_names(am0)):
        _manager_generator(ctx, m, am0)
        return
    cm = m.cls(CM)
    init = af.method(m, cm, '__init__')
    params = [a.arg for a in init.args.args]
    ctx.need(len(params) == 3, f'{CM}.__init__ parameters changed: {params}')
    fields = {}
    for st in init.body:
        if isinstance(st, ast.Assign) and len(st.targets) == 1 and isinstance(st.targets[0], ast.Attribute) and isinstance(st.value, ast.Name):
            fields[pf.nsrc(st.targets[0])] = st.value.id
    sem_f = [k for k, v in fields.items() if v == params[1]]
    w_f = [k for k, v in fields.items() if v == params[2]]
    ctx.need(len(sem_f) == 1 and len(w_f) == 1, f'{CM}.__init__ does not store (semaphore, weight) in two attributes')
    for st in ast.walk(cm):
        if isinstance(st, ast.Attribute) and isinstance(st.ctx, (ast.Store, ast.Del)) and pf.nsrc(st) in (sem_f[0], w_f[0]):
            ctx.need(m.enclosing_func(st) is init, f'{CM}: {pf.nsrc(st)} reassigned outside __init__')
    en = af.method(m, cm, '__aenter__')
    ex = af.method(m, cm, '__aexit__')
    cfg = pf.cfg(en)
    acq = af.stmt_nodes(cfg, lambda n: any(isinstance(x, ast.Await) and pf.call_name(x) == f'{sem_f[0]}.acquire' for x in ast.walk(n.ast)))
    ok = len(acq) == 1 and cfg.dominated_by(cfg.exit, lambda n: n is acq[0]) and not af.direct(cfg, acq[0], acq[0])
    if ok:
        c = af.node_is_call(acq[0], f'{sem_f[0]}.acquire')
        ok = c is not None and [pf.nsrc(a) for a in c.args] == [w_f[0]] and not c.keywords
        # no other suspension point after the acquire inside __aenter__ (a cancel there would skip __aexit__)
        later = [n for n in af.stmt_nodes(cfg, pf.node_has_await) if n is not acq[0] and af.direct(cfg, acq[0], n)]
        ok = ok and not later
    ctx.check(ok, 'R2', f'{F}::{CM}.__aenter__', f'__aenter__ does not `await {sem_f[0]}.acquire({w_f[0]})` exactly once on every path as its last suspension point',
              m.path, en.lineno)
    cfg = pf.cfg(ex)
    rel = af.stmt_nodes(cfg, lambda n: af.node_is_call(n, f'{sem_f[0]}.release') is not None)
    ok = len(rel) == 1 and cfg.dominated_by(cfg.exit, lambda n: n is rel[0]) and not af.direct(cfg, rel[0], rel[0])
    if ok:
        c = af.node_is_call(rel[0], f'{sem_f[0]}.release')
        ok = c is not None and [pf.nsrc(a) for a in c.args] == [w_f[0]] and not c.keywords
        pre = [n for n in cfg.nodes if n.ast is not None and pf.node_has_await(n) and af.direct(cfg, n, rel[0])]
        ok = ok and not pre
    ctx.check(ok, 'R2', f'{F}::{CM}.__aexit__', f'__aexit__ does not release exactly the acquired weight `{w_f[0]}` once, unconditionally (normal, error and '
              f'cancellation exits) and before any suspension point (found {[n.text() for n in rel]})', m.path, ex.lineno)
    cls = m.cls(CLS)
    am = af.method(m, cls, 'acquire_manager')
    body = af.body_no_doc(am)
    p2 = [a.arg for a in am.args.args]
    ok = len(body) == 1 and isinstance(body[0], ast.Return) and isinstance(body[0].value, ast.Call) and pf.dotted(body[0].value.func) == CM \
        and [pf.nsrc(a) for a in body[0].value.args] == p2 and not body[0].value.keywords
    ctx.check(ok, 'R2', f'{F}::{CLS}.acquire_manager', f'does not return {CM}(self, n)', m.path, am.lineno)


def _upper(m: pf.Module, e: ast.AST) -> Optional[Fraction]:
    v = af.const_number(m, e)
    if v is not None:
        return v
    if isinstance(e, ast.Call) and pf.dotted(e.func) == 'min' and e.args and not e.keywords:
        ups = [u for u in (_upper(m, a) for a in e.args) if u is not None]
        return min(ups) if ups else None
    return None


def _copier(ctx: Ctx) -> None:
    m = pf.load(CP)
    par = m.parents()
    caps: List[Fraction] = []
    weights = []
    for n in ast.walk(m.tree):
        if not (isinstance(n, ast.Attribute) and n.attr == 'xfer_sema'):
            continue
        fn = m.enclosing_func(n)
        q = m.qualname(fn) if fn is not None else '<module>'
        p = par.get(n)
        if isinstance(n.ctx, ast.Store):
            val = getattr(p, 'value', None)
            cons = f'{CP}::{q}::{pf.nsrc(p)}'
            if isinstance(val, ast.Name) and fn is not None and val.id in [a.arg for a in fn.args.args]:
                ctx.ok('R2', cons, 'handed over by the caller')
            elif isinstance(val, ast.Call) and pf.dotted(val.func) == CLS and len(val.args) == 1 and not val.keywords:
                cap = af.const_number(m, val.args[0])
                ctx.need(cap is not None, f'{cons}: capacity `{pf.nsrc(val.args[0])}` is not a constant expression')
                caps.append(cap)  # type: ignore[arg-type]
                ctx.ok('R2', cons, {'capacity': int(cap)})  # type: ignore[arg-type]
            else:
                ctx.need(isinstance(val, ast.Call), f'{cons}: unrecognised initialisation of the transfer semaphore')
                ctx.bad('R2', cons, f'the transfer semaphore is built by `{pf.nsrc(val)}`, not by {CLS}(capacity): the analysed semaphore is not the one in use',
                        m.path, n.lineno)
        elif isinstance(p, ast.Attribute) and p.value is n and p.attr == 'acquire_manager':
            call = par.get(p)
            ctx.need(isinstance(call, ast.Call) and call.func is p, f'{CP}::{q}: acquire_manager is not called')
            item = par.get(call)
            stmt = par.get(item) if item is not None else None
            cons = f'{CP}::{q}::{pf.nsrc(call)}'
            if isinstance(item, ast.withitem) and item.context_expr is call and isinstance(stmt, ast.AsyncWith):
                ctx.check(len(call.args) == 1 and not call.keywords, 'R2', cons, 'acquire_manager is not called with exactly the weight', m.path, n.lineno)  # type: ignore[union-attr]
                if len(call.args) == 1:  # type: ignore[union-attr]
                    weights.append((q, call.args[0], n.lineno))  # type: ignore[union-attr]
            else:
                ctx.bad('R2', cons, f'`{pf.nsrc(call)}` is not the context expression of an `async with`: nothing is acquired / the weight is not returned '
                        f'on every exit', m.path, n.lineno)
                if call.args:  # type: ignore[union-attr]
                    weights.append((q, call.args[0], n.lineno))  # type: ignore[union-attr]
        elif isinstance(p, ast.Call) and any(a is n for a in p.args):
            ctx.ok('R2', f'{CP}::{q}::{pf.nsrc(p.func)}(..., {pf.nsrc(n)}, ...)', 'handed over')
        elif isinstance(p, ast.Attribute) and p.value is n and p.attr == 'acquire' and isinstance(par.get(p), ast.Call):
            # manual acquire: must be a statement `await X.acquire(w)` directly followed by try/finally releasing the same weight
            call = par[p]
            cons = f'{CP}::{q}::{pf.nsrc(call)}'
            aw = par.get(call)
            stmt = par.get(aw) if isinstance(aw, ast.Await) else None
            ctx.need(isinstance(stmt, ast.Expr), f'{cons}: manual acquire is not a plain `await ....acquire(w)` statement')
            holder = par.get(stmt)
            sibs = None
            for fld in ('body', 'orelse', 'finalbody'):
                blk = getattr(holder, fld, None)
                if isinstance(blk, list) and any(x is stmt for x in blk):
                    sibs = blk
            ctx.need(sibs is not None, f'{cons}: cannot locate the statement list of the manual acquire')
            i = [k for k, x in enumerate(sibs) if x is stmt][0]  # type: ignore[union-attr]
            nxt = sibs[i + 1] if i + 1 < len(sibs) else None  # type: ignore[index,arg-type]
            want = pf.nsrc(p.value) + '.release'
            ok = isinstance(nxt, ast.Try) and any(isinstance(c, ast.Call) and pf.dotted(c.func) == want and [pf.nsrc(a) for a in c.args] == [pf.nsrc(a) for a in call.args]  # type: ignore[union-attr]
                                                   for st in nxt.finalbody for c in ast.walk(st))
            ctx.check(ok, 'R2', cons, f'`{pf.nsrc(call)}` is not immediately followed by try/finally releasing the same weight: the weight is not returned '
                      f'when the holder fails or is cancelled', m.path, n.lineno)
            if call.args:  # type: ignore[union-attr]
                weights.append((q, call.args[0], n.lineno))  # type: ignore[union-attr]
        elif isinstance(p, ast.Attribute) and p.value is n and p.attr == 'release' and isinstance(par.get(p), ast.Call):
            inside_finally = False
            cur = par[p]
            while cur is not None and cur is not fn:
                pp = par.get(cur)
                if isinstance(pp, ast.Try) and any(cur is x for x in pp.finalbody):
                    inside_finally = True
                cur = pp
            ctx.need(inside_finally, f'{CP}::{q}: manual `{pf.nsrc(par[p])}` outside a finally block is not analysed')
        else:
            raise AnalysisError(f'{CP}::{q}: unrecognised use of xfer_sema: `{pf.nsrc(p) if p is not None else pf.nsrc(n)}` (manual acquire/release pairing is not analysed)')
    ctx.need(len(caps) == 1, f'{CP}: expected one construction of the transfer semaphore, found {len(caps)}')
    for q, wexpr, line in weights:
        up = _upper(m, wexpr)
        cons = f'{CP}::{q}::weight {pf.nsrc(wexpr)}'
        if up is None and isinstance(wexpr, ast.Name):
            fnode = m.func(q)
            if wexpr.id in [a.arg for a in fnode.args.args] and len(pf.assignments(fnode).get(wexpr.id, [])) == 1:
                ctx.bad('R4', cons, f'the requested weight is the unbounded parameter `{wexpr.id}`: for values above the capacity {caps[0]} '
                        f'`assert n <= self.max` fails / the request can never be granted', m.path, line)
                continue
        ctx.need(up is not None, f'{cons}: no constant upper bound recognised')
        ctx.check(up <= caps[0], 'R4', cons, f'requested weight can reach {up}, above the capacity {caps[0]} the semaphore is built with: '  # type: ignore[operator]
                  f'`assert n <= self.max` fails / the request can never be granted', m.path, line, detail={'upper_bound': int(up), 'capacity': int(caps[0])})  # type: ignore[arg-type]
    ctx.unit('copier_async_with_sites', len(weights))


def run(ctx: Ctx) -> None:
    ctx.explanation = ('CFG guard-dominance with await-atomicity for every decrement of the counter, exhaustive evaluation of the guards over '
                       '{value<n, ==, >} x {waiters, none}, must-pass coupling of set/pop/decrement in release, pairing in _AcquireManager, closure over '
                       'all uses of xfer_sema in copier.py, and for every await after a waiter registration the set of except/finally blocks that run on CancelledError.')
    ctx.rule('R1', 'every `self.value -= n` is guarded atomically by self.value >= n; release wakes, removes and charges the same head waiter together; '
                   'writer/reader tuple layout agrees', 8)
    ctx.rule('R2', '_AcquireManager acquires/releases the same weight, releases unconditionally; release gives the weight back; '
                   'all copier uses go through `async with acquire_manager(w)`', 9)
    ctx.rule('R3', 'an await that follows a waiter registration deregisters the waiter / hands back a granted weight when it raises CancelledError', 1)
    ctx.rule('R4', 'weights requested by the copier are bounded by the capacity', 2)
    ctx.assume('asyncio runs one coroutine at a time and switches only at await; Task.cancel() raises CancelledError at the pending await, '
               'also when the awaited event has already been set but the task has not resumed yet')
    m = pf.load(F)
    ctx.unit('files', 2)
    cls = m.cls(CLS)
    guards = af.guarded_decrements(ctx, m, cls, 'R1', VAL, [EV])
    layout = _acquire(ctx, m, cls, guards)
    _release(ctx, m, cls, guards, layout)
    _manager(ctx, m)
    _copier(ctx)
    ctx.unit('functions', 6)
