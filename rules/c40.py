"""C40 Weighted transfer semaphore is safe and releases on cancellation.

Decides from the syntax tree / CFG of hailtop/aiotools/weighted_semaphore.py and hailtop/aiotools/fs/copier.py (nothing is run):
  R1 safety      every `self.value -= n` is reached only through a test edge implying `self.value >= n`, atomically; in release the
                 wake-up (`event.set()`), the removal of the waiter and the decrement of *that waiter's* weight go together, and the
                 (n, event) layout agrees between acquire (writer) and release (reader)
  R2 pairing     _AcquireManager acquires and releases the same stored weight, releases unconditionally on exit;
                 every use of the transfer semaphore in copier.py is `async with ....acquire_manager(w)` (or construction / hand-over)
  R3 cancellation every `await` that follows the registration of a waiter (`self.events.add`) has, on its CancelledError exit,
                 a clean-up that deregisters the waiter and hands back a weight that was already granted; the deregistration takes the
                 cancelled waiter's OWN entry out (removal by the registered entry, not by position / by a rebuilt element) and, since
                 remove/discard find it by ==, the entries of two different waiters cannot compare equal (derived from what is registered:
                 tuple / NamedTuple / dataclass eq=, field(compare=False) / plain class with or without __eq__, see engines/c40facts.py);
                 the hand-back runs only when the event is set and returns the waiter's weight
  R4 precondition weights requested in copier.py are bounded by the capacity the semaphore is built with
  R5 reachability of the clean-up: every `X.acquire(w)` coroutine (manager classes/generators of both files, manual sites) is awaited
                 directly by the task that wants the weight; handed to ensure_future / create_task / shield it runs outside that task, a
                 cancellation of the waiter never reaches acquire's clean-up (violation unless every later await cancels the inner task ->
                 declined)
The copier closure follows the semaphore through constructors/functions of copier.py and the attributes it is stored in; a context-manager
class or @asynccontextmanager function of copier.py that wraps the semaphore is analysed with the same obligations as _AcquireManager (R2, R5)
and its `async with` sites feed R4.
Does not decide: fairness/starvation of large requests (the waiter list is ordered by weight by design), schedules as such.

Spelling independence: both classes are first brought into one spelling by engines/c2440norm.py (same-class helpers inlined into acquire / release /
__aenter__ / __aexit__, `x = x + n` as `x += n`, boolean locals moved into the test they feed, guard clauses as if / else, conditional-expression
statements as if statements); the counter, the waiter list, the manager class and the copier's semaphore attribute are identified by what they are
bound to, not by name; the head waiter's components are resolved through casts / locals / unpacking / indexing; weights may be passed by keyword or
through a local.  A violation needs positive evidence; a shape that is not understood declines (exit 2).
"""
from __future__ import annotations

import ast
from fractions import Fraction
from typing import List, Optional

from engines import asyncfacts as af
from engines import c2440norm as nm
from engines import c40facts as cf
from engines import pyfacts as pf
from engines.common import AnalysisError, Ctx

META = dict(
    category='other',
    text='Structural necessary conditions decided on the CFG: guard dominance with await-atomicity for every decrement (guards evaluated '
         'exhaustively over the order relation x waiter-list emptiness), coupling of wake-up/removal/charge in release, acquire/release pairing '
         'of the context manager and closure over all use sites in the copier, and a cancellation analysis of every await that follows a '
         'waiter registration (which handlers/finally blocks run when it raises CancelledError).  Not a proof over interleavings.',
    note='Trusted: CPython ast; engines/pyfacts CFG; asyncio switches only at await; Task.cancel raises CancelledError at the pending await. '
         'Not decided: starvation, SortedKeyList semantics beyond add/[0]/pop(0).',
    technique='static analysis: CFG guard dominance + await-atomicity + cancellation-exit analysis + derived equality of the waiter entry + use-site closure through hand-overs',
    design_ref='DESIGN.md §3 C40, §4 F3',
)

F = 'hail/python/hailtop/aiotools/weighted_semaphore.py'
CP = 'hail/python/hailtop/aiotools/fs/copier.py'
CLS = 'WeightedSemaphore'
CM = '_AcquireManager'
VAL = 'self.value'
EV = 'self.events'


_WP: dict = {}   # method of WeightedSemaphore -> name of its weight parameter (filled by run)


def _weight_arg(call: ast.Call, method: str) -> Optional[ast.AST]:
    """The weight passed to acquire / release / acquire_manager: the only positional argument, or the only keyword argument when it names the
    weight parameter.  None for any other argument shape."""
    if len(call.args) == 1 and not call.keywords and not isinstance(call.args[0], ast.Starred):
        return call.args[0]
    if not call.args and len(call.keywords) == 1 and call.keywords[0].arg is not None and call.keywords[0].arg == _WP.get(method):
        return call.keywords[0].value
    return None


def _strip_cast(e: ast.AST) -> ast.AST:
    while isinstance(e, ast.Call) and pf.dotted(e.func) in ('cast', 'typing.cast') and len(e.args) == 2:
        e = e.args[1]
    return e


def _resolve_local(fn: pf.FuncDef, e: ast.AST) -> ast.AST:
    """Follow single-definition locals and `cast(T, x)` wrappers."""
    for _ in range(4):
        e2 = _strip_cast(pf.resolve_expr(fn, _strip_cast(e)))
        if e2 is e:
            break
        e = e2
    return e


def _uninlined(cls: ast.ClassDef, node: ast.AST, recv: str = 'self', allow: tuple = ()) -> List[str]:
    """Calls `self.<method of this class>(...)` inside node that were not inlined (what they do is not visible here)."""
    names = {f.name for f in cls.body if isinstance(f, (ast.FunctionDef, ast.AsyncFunctionDef))} - set(allow)
    return sorted({pf.nsrc(c)[:60] for c in ast.walk(node) if isinstance(c, ast.Call) and isinstance(c.func, ast.Attribute)
                   and isinstance(c.func.value, ast.Name) and c.func.value.id == recv and c.func.attr in names})


def _is_head(fn: pf.FuncDef, e: ast.AST, depth: int = 4) -> bool:
    """e denotes the first element of the waiter list: `self.events[0]`, or a local bound (only) to it."""
    e = _strip_cast(e)
    if isinstance(e, ast.Subscript) and pf.nsrc(e.value) == EV:
        return pf.nsrc(e.slice) == '0'
    if isinstance(e, ast.Name) and depth > 0:
        defs = [d for d in pf.assignments(fn).get(e.id, []) if not (isinstance(d, ast.expr) and pf.nsrc(_strip_cast(d)) == e.id)]
        return len(defs) == 1 and isinstance(defs[0], ast.expr) and _is_head(fn, defs[0], depth - 1)
    return False


def _head_comp(fn: pf.FuncDef, e: ast.AST, depth: int = 4):
    """Which component of the head waiter the expression is: ('idx', i) / ('attr', name); None if it is not (recognisably) one.
    Followed through casts, locals (`x = cast(int, x)` re-bindings are identities), tuple unpacking of the head, `head[i]`, `head.f`."""
    e = _strip_cast(e)
    if isinstance(e, ast.Subscript) and isinstance(e.slice, ast.Constant) and isinstance(e.slice.value, int) and not isinstance(e.slice.value, bool) \
            and e.slice.value >= 0 and _is_head(fn, e.value):
        return ('idx', e.slice.value)
    if isinstance(e, ast.Attribute) and _is_head(fn, e.value):
        return ('attr', e.attr)
    if isinstance(e, ast.Name) and depth > 0:
        got = set()
        for d in pf.assignments(fn).get(e.id, []):
            if isinstance(d, ast.expr):
                if pf.nsrc(_strip_cast(d)) == e.id:
                    continue
                got.add(_head_comp(fn, d, depth - 1))
            elif isinstance(d, ast.Assign) and len(d.targets) == 1 and isinstance(d.targets[0], ast.Tuple) and all(isinstance(x, ast.Name) for x in d.targets[0].elts) \
                    and _is_head(fn, d.value):
                got.add(('idx', [x.id for x in d.targets[0].elts].index(e.id)))  # type: ignore[attr-defined]
            else:
                got.add(None)
        return next(iter(got)) if len(got) == 1 else None
    return None


def _head_reads(fn: pf.FuncDef, cfg: pf.CFG) -> List[pf.Node]:
    """CFG nodes of release that read `self.events[0]`."""
    return [n for n in cfg.nodes if n.ast is not None and any(isinstance(x, ast.Subscript) and pf.nsrc(x.value) == EV for e in pf.node_exprs(n) for x in pf.walk_shallow(e))]


class _Wake:
    def __init__(self):
        self.stmt = None     # the While
        self.fit = None      # the If deciding whether the head fits


def _wake_loop(ctx: Ctx, m: pf.Module, cls: ast.ClassDef, fn: pf.FuncDef) -> _Wake:
    """`while <waiter list non-empty>: ... if <head fits the free capacity>: wake it  else: leave` -- however the head's components are read."""
    qn = f'{CLS}.release'
    ev = af.TestEval('?', '?', [EV])
    cands = []
    for n in pf.walk_shallow(fn):
        if isinstance(n, (ast.While, ast.If)) and af.mentions(n.test, EV):
            try:
                rows = ev.rows(n.test)
            except AnalysisError:
                continue
            if all(r[2] == r[1][EV] for r in rows):
                cands.append(n)
    ctx.need(len(cands) == 1, f'{F}::{qn}: expected exactly one `while {EV}:` wake loop, found {len(cands)}')
    wl = _Wake()
    wl.stmt = cands[0]
    fits = [s_ for s_ in ast.walk(cands[0]) if isinstance(s_, ast.If) and s_ is not cands[0] and af.mentions(s_.test, VAL)]
    if not fits:
        # the loop decides on something else than the total free capacity: recognise "compares the head with the released amount only"
        params = [a.arg for a in fn.args.args][1:]
        for s_ in [x for x in ast.walk(cands[0]) if isinstance(x, ast.If) and x is not cands[0]]:
            for c in ast.walk(s_.test):
                if isinstance(c, ast.Compare):
                    sides = [c.left] + list(c.comparators)
                    heads = [x for x in sides if _head_comp(fn, x) is not None]
                    rest = [x for x in sides if x not in heads]
                    if heads and rest and all(pf.names_in(x) and pf.names_in(x) <= set(params) for x in rest):
                        raise af.FitNotOnValue(f'{F}::{qn}', pf.nsrc(s_.test), s_.lineno, VAL)
    ctx.need(len(fits) == 1, f'{F}::{qn}: expected one fit test on {VAL} in the wake loop, found {len(fits)}')
    wl.fit = fits[0]
    return wl


def _release(ctx: Ctx, m: pf.Module, cls: ast.ClassDef, guards: List[af.Guarded], entry: Optional[cf.Entry]) -> None:
    qn = f'{CLS}.release'
    fn = af.method(m, cls, 'release')
    ctx.need(isinstance(fn, ast.FunctionDef), f'{qn} is a coroutine: its wake-up loop is no longer atomic')
    cfg = pf.cfg(fn)
    params = [a.arg for a in fn.args.args]
    ctx.need(len(params) == 2, f'release parameters changed: {params}')
    w = params[1]
    un = _uninlined(cls, fn)
    ctx.need(not un, f'{qn}: still calls {un[0] if un else ""} (helper not inlined): the wake-up is not visible in release itself')
    wl = _wake_loop(ctx, m, cls, fn)
    L = af.test_node(cfg, wl.stmt.test)  # type: ignore[union-attr]
    incs = af.stmt_nodes(cfg, lambda n: isinstance(n.ast, ast.AugAssign) and isinstance(n.ast.op, ast.Add) and pf.nsrc(n.ast.target) == VAL)
    okinc = len(incs) == 1 and pf.nsrc(_resolve_local(fn, incs[0].ast.value)) == w and cfg.dominated_by(cfg.exit, lambda n: n is incs[0])  # type: ignore[union-attr]
    if not okinc and len(incs) == 1:
        given = _resolve_local(fn, incs[0].ast.value)  # type: ignore[union-attr]
        ctx.need(isinstance(given, ast.Constant) or pf.names_in(given) <= {w} or not cfg.dominated_by(cfg.exit, lambda n: n is incs[0]),
                 f'{qn}: cannot relate the amount given back `{pf.nsrc(given)}` to the released weight `{w}`')
    ctx.check(okinc, 'R2', f'{F}::{qn}::give back', f'release does not add exactly the released weight `{w}` back to {VAL} once on every path '
              f'(found {[n.text() for n in incs]})', m.path, fn.lineno)
    gs = [g for g in guards if g.fnname == 'release']
    if len(gs) != 1:
        ctx.need(not gs, f'{qn}: {len(gs)} guarded decrements')
        if not af.stmt_nodes(cfg, lambda n: isinstance(n.ast, ast.AugAssign) and isinstance(n.ast.op, ast.Sub) and pf.nsrc(n.ast.target) == VAL):
            ctx.bad('R1', f'{F}::{qn}::wake::value -= n', 'release wakes waiters but never subtracts their weight: the woken holder runs without being '
                    'charged (over-grant)', m.path, fn.lineno)
        af.blocked(ctx, 'R1', 'R1')
        return
    g = gs[0]
    ctx.need(g.test.ast is wl.fit.test, f'{qn}: the decrement is not guarded by the fit test of the wake loop')  # type: ignore[union-attr]
    # which component of the head is charged, which one is set
    wcomp = _head_comp(fn, g.dec.ast.value)  # type: ignore[union-attr]
    ctx.need(wcomp is not None, f'{qn}: decrements `{g.w}`, which is not read from the head of the waiter list')
    setcalls = [c for c in ast.walk(wl.stmt) if isinstance(c, ast.Call) and isinstance(c.func, ast.Attribute) and c.func.attr == 'set' and not c.args and not c.keywords]  # type: ignore[arg-type]
    evs = {}
    for c in setcalls:
        comp = _head_comp(fn, c.func.value)  # type: ignore[attr-defined]
        ctx.need(comp is not None, f'{qn}: `{pf.nsrc(c)}` sets something that is not read from the head of the waiter list (not analysed)')
        evs[pf.nsrc(c.func.value)] = comp  # type: ignore[attr-defined]
    ctx.need(len(set(evs.values())) <= 1, f'{qn}: several components of the head waiter are set: {sorted(evs)}')
    ecomp = next(iter(evs.values()), None)
    # the components must be those of the waiter that is removed: no read of the head between its removal and the next evaluation of the loop test
    popn = af.stmt_nodes(cfg, lambda n: ((c := af.node_is_call(n, f'{EV}.pop')) is not None and [pf.nsrc(a) for a in c.args] == ['0'] and not c.keywords)
                         or (isinstance(n.ast, ast.Delete) and [pf.nsrc(t) for t in n.ast.targets] == [f'{EV}[0]']))
    for P in popn:
        late = [r for r in _head_reads(fn, cfg) if r is not P and cfg.path_avoiding(P, lambda n, r=r: n is r, lambda n: n is L) is not None]
        ctx.need(not late, f'{qn}: `{late[0].text() if late else ""}` reads the head of the waiter list after `{P.text()}` removed it (not analysed)')
    if entry is not None:
        for comp, role in ((wcomp, 'weight'), (ecomp, 'event')):
            if comp is None:
                continue
            kind, key = comp
            if kind == 'attr':
                ctx.need(entry.form == 'record', f'{qn}: reads the head as a record `.{key}` but acquire registers a tuple')
                got = entry.by_attr.get(key)
                ctx.need(got is not None, f'{qn}: `.{key}` is not a field of the registered {entry.rec.cls.name}')  # type: ignore[union-attr]
                shown = f'`<head>.{key}`'
            else:
                ctx.need(entry.by_index is not None, f'{qn}: reads the head by position but acquire registers a {entry.rec.cls.name if entry.rec else "?"} record')
                layout = entry.by_index or []
                ctx.need(key < len(layout), f'{qn}: reads component {key} of the head but acquire registers {len(layout)} components')
                got = layout[key]
                shown = f'component {key} of the head'
            ctx.check(got == role, 'R1', f'{F}::{CLS}::waiter element layout' + ('' if role == 'weight' else '::event'),
                      f'acquire registers {entry.layout()} but release uses {shown} as the {role}: '
                      + ('the weight charged is not the waiter\'s' if role == 'weight' else 'the event set is not the one the waiter waits on'),
                      m.path, wl.fit.lineno)  # type: ignore[union-attr]
    # wake = set + remove head + decrement on every path where the head fits
    cons = f'{F}::{qn}::wake'
    setn = af.stmt_nodes(cfg, lambda n: any(c2 is x for c2 in setcalls for e in pf.node_exprs(n) for x in pf.walk_shallow(e)))
    anypop = af.stmt_nodes(cfg, lambda n: any(pf.dotted(c.func) in (f'{EV}.pop', f'{EV}.remove', f'{EV}.discard', f'{EV}.clear') for c in pf.node_calls(n))
                           or (isinstance(n.ast, ast.Delete) and any(af.mentions(t, EV) for t in n.ast.targets)))
    for x in anypop:
        if x not in popn:
            raise AnalysisError(f'{qn}: unrecognised removal `{x.text()}` from the waiter list')
    goal = (lambda n: n is L or n is cfg.exit or n is cfg.raise_exit)
    parts = {'event.set()': setn, 'events.pop(0)': popn, 'value -= n': [g.dec]}
    why = {'event.set()': 'the waiter is removed and charged but never resumed (its weight is lost)',
           'events.pop(0)': 'the same waiter is charged again by the next iteration / release',
           'value -= n': 'the woken holder runs without being charged (over-grant)'}
    for what, nodes in parts.items():
        c2 = cons + f'::{what}'
        if not nodes:
            ctx.bad('R1', c2, f'waking the head never performs {what}: {why[what]}', m.path, g.test.lineno)
            continue
        p = af.must_pass(cfg, g.test, goal, lambda n, nodes=nodes: any(n is x for x in nodes), first_label=g.label)
        only = all(af.every_path_uses_edge(cfg, x, g.test, g.label) for x in nodes)
        ctx.check(p is None and only, 'R1', c2, f'{what} is not performed exactly on the paths where the head fits: {why[what]}', m.path, nodes[0].lineno)


def _opaque_test(fn: pf.FuncDef, test: ast.AST, seen: tuple = ()) -> Optional[str]:
    """Why the truth of `test` may depend on the semaphore's state in a way the test itself does not show: a local whose definition reads the
    object (the normaliser could not move it into the test), an await, a call that is handed the object."""
    asg = pf.assignments(fn)
    for x in ast.walk(test):
        if isinstance(x, ast.Name) and isinstance(x.ctx, ast.Load) and x.id != 'self' and x.id not in seen:
            for d in asg.get(x.id, []):
                if isinstance(d, (ast.Constant, ast.arg)):
                    continue
                if not isinstance(d, ast.expr) or isinstance(d, (ast.Await, ast.Yield, ast.YieldFrom)):
                    if isinstance(d, ast.Assign) and _is_head(fn, d.value):
                        continue      # tuple unpacking of the head waiter: its components are what the rules resolve
                    return f'local `{x.id}` (bound by `{pf.nsrc(d)[:60]}`)'
                if pf.nsrc(_strip_cast(d)) == x.id or _head_comp(fn, d) is not None or _is_head(fn, d):
                    continue
                if any(isinstance(y, ast.Name) and y.id == 'self' for y in ast.walk(d)) or _opaque_test(fn, d, seen + (x.id,)) is not None:
                    return f'local `{x.id}` (= `{pf.nsrc(d)[:60]}`)'
        if isinstance(x, (ast.Await, ast.NamedExpr, ast.Lambda)):
            return f'`{pf.nsrc(x)[:60]}`'
        if isinstance(x, ast.Call) and pf.dotted(x.func) not in nm.PURE_FUNCS and not (isinstance(x.func, ast.Attribute) and x.func.attr in nm.PURE_METHODS) \
                and any(isinstance(y, ast.Name) and y.id == 'self' for y in ast.walk(x)):
            return f'call `{pf.nsrc(x)[:60]}`'
    return None


def _precheck_decrements(ctx: Ctx, m: pf.Module, cls: ast.ClassDef) -> None:
    """af.guarded_decrements reports a decrement that no test on self.value dominates.  That is evidence only when the tests that DO dominate it are
    transparent and the decrement sits in a method that is an entry point of its own; decline otherwise (a guard behind a local / a helper that is
    called under the guard but could not be inlined)."""
    for fn in [st for st in cls.body if isinstance(st, (ast.FunctionDef, ast.AsyncFunctionDef))]:
        cfg = pf.cfg(fn)
        decs = af.stmt_nodes(cfg, lambda n: n.kind == 'stmt' and isinstance(n.ast, ast.AugAssign) and isinstance(n.ast.op, ast.Sub) and pf.nsrc(n.ast.target) == VAL)
        if not decs:
            continue
        if fn.name not in ('acquire', 'release'):
            refs = [f.name for f in cls.body if isinstance(f, (ast.FunctionDef, ast.AsyncFunctionDef)) and f is not fn and _uninlined(cls, f) and
                    any(fn.name + '(' in u for u in _uninlined(cls, f))]
            ctx.need(not refs, f'{CLS}.{fn.name} decrements {VAL} and is called from {refs[0] if refs else ""} without having been inlined there: its guard is not visible')
        for D in decs:
            dom = [t for t in cfg.nodes if t.kind == 'test' and t is not D
                   and any(any(lab == label for _, lab in t.succ) and af.every_path_uses_edge(cfg, D, t, label) for label in ('T', 'F'))]
            if any(af.mentions(t.ast, VAL) for t in dom):
                continue     # a test on self.value dominates the decrement: decided by its truth table
            for t in dom:
                why = _opaque_test(fn, t.ast)
                ctx.need(why is None, f'{CLS}.{fn.name}: `{pf.nsrc(D.ast)}` is guarded by `{pf.nsrc(t.ast)}`, which reads {why}: guard not recognised')


def _build_entry(ctx: Ctx, m: pf.Module, fn: pf.FuncDef, arg: ast.AST, w: str, awaited: List[str]) -> cf.Entry:
    """What acquire registers: component roles (weight / event / other), how each component behaves under == and whether the entries of two
    different acquire calls can compare equal."""
    qn = f'{CLS}.acquire'
    en = cf.Entry()
    en.var = arg.id if isinstance(arg, ast.Name) else None
    e = pf.resolve_expr(fn, arg)
    en.expr = e
    comps: List[tuple] = []   # (accessor, text used in acquire, kind, compared)
    if isinstance(e, ast.Tuple):
        ctx.need(len(e.elts) >= 2 and all(isinstance(x, ast.Name) for x in e.elts), f'{qn}: registered element is not a tuple of names')
        for i, x in enumerate(e.elts):
            kind = 'value' if x.id == w else cf.eq_kind(m, pf.resolve_expr(fn, x), [w])  # type: ignore[attr-defined]
            comps.append((i, x.id, kind, True))  # type: ignore[attr-defined]
        en.form = 'tuple'
        eq_src = 'tuple equality over (' + ', '.join(c[1] for c in comps) + ')'
        ident = False
    else:
        lc = cf.local_class(m, e.func) if isinstance(e, ast.Call) else None
        ctx.need(lc is not None, f'{qn}: registered element `{pf.nsrc(e)}` is neither a tuple of names nor an instance of a class of this module')
        ctx.need(en.var is not None, f'{qn}: the registered record is not bound to a local')
        rec = cf.record_class(m, lc)  # type: ignore[arg-type]
        en.form, en.rec = 'record', rec
        bound = cf.bind_call(rec, e, qn)  # type: ignore[arg-type]
        for f in rec.fields:
            how, val = bound[f.name]
            ctx.need(how != 'missing', f'{qn}: field `{f.name}` of {rec.cls.name} gets no value in `{pf.nsrc(e)}`')
            if how == 'arg':
                kind = 'value' if isinstance(val, ast.Name) and val.id == w else cf.eq_kind(m, pf.resolve_expr(fn, val), [w])  # type: ignore[arg-type]
                isw = isinstance(val, ast.Name) and val.id == w
            else:
                kind, isw = cf.eq_kind(m, val, []), False
            comps.append((f.name, f'{en.var}.{f.name}', kind, f.compare, isw))
        eq_src = rec.eq_src
        ident = rec.eq == 'identity'
    # roles
    weights = [c for c in comps if (c[1] == w if en.form == 'tuple' else c[4])]
    ctx.need(len(weights) == 1, f'{qn}: registered element {[c[1] for c in comps]} does not carry the weight `{w}` exactly once')
    others = [c for c in comps if c is not weights[0]]
    evc = [c for c in others if c[1] in awaited] or [c for c in others if c[2] == 'identity'] or others
    ctx.need(evc, f'{qn}: registered element has no event component')
    roles = {c[0]: ('weight' if c is weights[0] else 'event' if c is evc[0] else 'other') for c in comps}
    en.event_src = evc[0][1]
    if en.form == 'tuple':
        en.by_index = [roles[i] for i in range(len(comps))]
    else:
        en.by_attr = {k: v for k, v in roles.items()}
        if en.rec.kind == 'namedtuple':  # type: ignore[union-attr]
            en.by_index = [roles[f.name] for f in en.rec.fields]  # type: ignore[union-attr]
    en.kinds = {c[0]: c[2] for c in comps}
    # equality between the entries of two different acquire calls
    compared = [c for c in comps if c[3]]
    if ident:
        en.unique, en.eq_why = True, eq_src
    elif en.rec is not None and en.rec.eq == 'custom':
        eqfn = [st for st in en.rec.cls.body if isinstance(st, ast.FunctionDef) and st.name == '__eq__'][0]
        opaque = any(isinstance(x, (ast.Is, ast.IsNot, ast.Call)) for x in ast.walk(eqfn))
        if compared and not opaque and all(c[2] == 'value' for c in compared):
            en.unique = False
        elif any(c[2] == 'identity' for c in compared) and not opaque:
            en.unique = None
        en.eq_why = eq_src
    else:
        if any(c[2] == 'identity' for c in compared):
            en.unique = True
        elif all(c[2] == 'value' for c in compared):
            en.unique = False
        en.eq_why = eq_src
    return en


def _under_event_set(m: pf.Module, stop: ast.AST, node: ast.AST, atom: str) -> str:
    """Inside the clean-up block: 'set' -- `node` runs only when `atom` (`<event>.is_set()`) is true; 'unset' -- only when it is false;
    'always' -- no condition encloses it; 'unknown' -- it is conditional on something that does not decide the atom."""
    par = m.parents()
    cur = node
    res = 'always'
    while cur is not stop and cur in par:
        p = par[cur]
        if isinstance(p, ast.If) and cur is not p.test:
            lab = 'T' if any(cur is s for s in p.body) else 'F'
            if af.implied_on_edge(p.test, lab, atom, True):
                return 'set'
            if af.implied_on_edge(p.test, lab, atom, False):
                return 'unset'
            res = 'unknown'
        elif isinstance(p, (ast.While, ast.For, ast.IfExp, ast.BoolOp, ast.Try, ast.Match)) and not (isinstance(p, ast.Try) and any(cur is s for s in p.finalbody)):
            res = 'unknown'
        cur = p
    return res


def _acquire(ctx: Ctx, m: pf.Module, cls: ast.ClassDef, guards: List[af.Guarded]) -> Optional[cf.Entry]:
    qn = f'{CLS}.acquire'
    fn = af.method(m, cls, 'acquire')
    ctx.need(isinstance(fn, ast.AsyncFunctionDef), 'acquire is not a coroutine')
    cfg = pf.cfg(fn)
    params = [a.arg for a in fn.args.args]
    ctx.need(len(params) == 2, f'acquire parameters changed: {params}')
    w = params[1]
    ctx.need(len(pf.assignments(fn).get(w, [])) == 1, f'{qn}: the weight parameter `{w}` is re-bound')
    gs = [g for g in guards if g.fnname == 'acquire']
    if len(gs) == 1:
        ctx.need(gs[0].w == w, f'{qn}: fast path decrements `{gs[0].w}`, not the requested weight `{w}`')
    else:
        ctx.need(not gs, f'{qn}: {len(gs)} guarded decrements')
        af.blocked(ctx, 'R1', 'R1')
    # registration
    regs = af.stmt_nodes(cfg, lambda n: af.node_is_call(n, f'{EV}.add') is not None)
    ctx.need(len(regs) == 1, f'{qn}: expected one waiter registration `{EV}.add(...)`, found {len(regs)}')
    R = regs[0]
    call = af.node_is_call(R, f'{EV}.add')
    ctx.need(call is not None and len(call.args) == 1, f'{qn}: registration call shape not recognised')
    aw_nodes = [n for n in af.stmt_nodes(cfg, pf.node_has_await) if af.direct(cfg, R, n)]
    ctx.need(aw_nodes, f'{qn}: no await follows the registration (idiom not recognised)')
    awaited = [pf.nsrc(a.value.func.value) for n in aw_nodes for a in ast.walk(n.ast) if isinstance(a, ast.Await) and isinstance(a.value, ast.Call)  # type: ignore[arg-type]
               and isinstance(a.value.func, ast.Attribute) and a.value.func.attr == 'wait']
    entry = _build_entry(ctx, m, fn, call.args[0], w, awaited)  # `entry = (n, event); events.add(entry)` is the same registration
    evname = entry.event_src
    # the granted fast path must not also register
    if len(gs) == 1:
        ctx.check(not af.direct(cfg, gs[0].dec, R), 'R1', f'{F}::{qn}::fast path exclusive',
                  'the granted fast path also registers a waiter: the request is charged twice', m.path, R.lineno)
    # R3: awaits after the registration
    for n in aw_nodes:
        for a in pf.walk_shallow(n.ast):
            if not isinstance(a, ast.Await):
                continue
            cons = f'{F}::{qn}::{pf.nsrc(a)}'
            blocks, _prop = af.cancel_blocks(m, fn, a)
            calls = [c for _, b in blocks for s in b for c in ast.walk(s) if isinstance(c, ast.Call)]
            dereg = [c for c in calls if pf.dotted(c.func) in (f'{EV}.remove', f'{EV}.discard', f'{EV}.pop', f'{EV}.clear')]
            hand = [c for c in calls if pf.dotted(c.func) == 'self.release'] + \
                   [s for _, b in blocks for st in b for s in ast.walk(st) if isinstance(s, ast.AugAssign) and isinstance(s.op, ast.Add) and pf.nsrc(s.target) == VAL]
            un = sorted({x for _, b in blocks for st in b for x in _uninlined(cls, st, allow=('release',))})
            ctx.need(not un, f'{qn}: the clean-up of `{pf.nsrc(a)}` calls {un[0] if un else ""} (helper not inlined): what it deregisters / hands back is not visible')
            if not dereg and not hand:
                ctx.bad('R3', cons, f'`{pf.nsrc(a)}` follows `{R.text()}` but no except/finally runs when it raises CancelledError: the cancelled waiter stays in '
                        f'{EV}; the next release that fits pops it, subtracts its weight and sets an event nobody waits on, so that capacity is never returned '
                        f'(and a waiter cancelled just after being granted never releases either)', m.path, a.lineno)
                continue
            ctx.check(bool(dereg), 'R3', cons + '::deregister', 'the cancellation clean-up never removes the waiter from the list: a later release grants it',
                      m.path, a.lineno)
            ctx.check(bool(hand), 'R3', cons + '::hand back', 'the cancellation clean-up never hands back a weight that release had already granted '
                      '(cancel arriving between event.set() and the resumption of the waiter)', m.path, a.lineno)
            if dereg:
                _own_entry(ctx, m, fn, cons, entry, call.args[0], dereg, w, a)
            if hand:
                _hand_back(ctx, m, fn, cons, blocks, hand, w, evname, a)
    # wait is on the registered event
    aws = [a for n in aw_nodes for a in ast.walk(n.ast) if isinstance(a, ast.Await)]
    wait_ok = any(pf.call_name(a) == f'{evname}.wait' for a in aws)
    if not wait_ok:
        plain = all(isinstance(a.value, ast.Call) and isinstance(a.value.func, ast.Attribute) and a.value.func.attr == 'wait' and not a.value.args
                    and isinstance(a.value.func.value, (ast.Name, ast.Attribute)) for a in aws)
        ctx.need(plain, f'{qn}: the await(s) after the registration ({", ".join(pf.nsrc(a) for a in aws)[:120]}) are not plain `<event>.wait()` calls: cannot tell what is waited on')
    ctx.check(wait_ok, 'R1', f'{F}::{qn}::waits on registered event', f'the waiter does not wait on the event `{evname}` it registered: it resumes without a grant',
              m.path, R.lineno)
    return entry


def _own_entry(ctx: Ctx, m: pf.Module, fn: pf.FuncDef, cons: str, entry: cf.Entry, reg_arg: ast.AST, dereg: List[ast.Call], w: str, a: ast.Await) -> None:
    """The clean-up must take the cancelled waiter's OWN entry out of the list: (a) the removal is `remove/discard(<the registered entry>)`, and
    (b) since those find the element by ==, no other waiter's entry may compare equal to it."""
    qn = f'{CLS}.acquire'
    witness = (f'history: W1 and W2 both call acquire({w}) with the same weight and queue; W2 is cancelled -> the clean-up takes W1\'s entry out: W1 is never '
               f'woken, and W2\'s stale entry is later popped and charged by release for a waiter that is gone, so that weight is never returned')
    for c in dereg:
        meth = c.func.attr  # type: ignore[attr-defined]
        c2 = cons + '::deregister::own entry'
        if meth in ('pop', 'clear'):
            par_ = m.parents()
            cur_ = par_.get(c)
            in_loop = False
            while cur_ is not None and cur_ is not fn:
                in_loop = in_loop or isinstance(cur_, (ast.While, ast.For))
                cur_ = par_.get(cur_)
            ctx.need(not in_loop, f'{qn}: `{pf.nsrc(c)}` inside a loop of the clean-up (a wake-up loop, not a deregistration: not analysed)')
            ctx.bad('R3', c2, f'the cancellation clean-up removes by position (`{pf.nsrc(c)}`), not the cancelled waiter\'s own entry: with another waiter queued in front '
                    f'that one is dropped instead. ' + witness, m.path, c.lineno)
            continue
        ctx.need(len(c.args) == 1 and not c.keywords, f'{qn}: `{pf.nsrc(c)}` not recognised')
        x = c.args[0]
        same = (isinstance(x, ast.Name) and isinstance(reg_arg, ast.Name) and x.id == reg_arg.id and len(pf.assignments(fn).get(x.id, [])) == 1) \
            or pf.resolve_expr(fn, x) is entry.expr
        if not same:
            rx = pf.resolve_expr(fn, x)
            fresh = [y for y in ast.walk(rx) if isinstance(y, ast.Call) and cf.eq_kind(m, y, [w]) == 'identity']
            structurally = isinstance(rx, ast.Tuple) and isinstance(entry.expr, ast.Tuple) and [pf.nsrc(z) for z in rx.elts] == [pf.nsrc(z) for z in entry.expr.elts] \
                and all(isinstance(z, ast.Name) and len(pf.assignments(fn).get(z.id, [])) == 1 for z in rx.elts)
            if structurally:
                same = True
            elif fresh:
                ctx.bad('R3', c2, f'`{pf.nsrc(c)}` looks for an element built around a NEW `{pf.nsrc(fresh[0])}`, which equals no registered entry: the removal fails '
                        f'(ValueError) / removes nothing and the cancelled waiter stays queued; a later release charges its weight for nobody', m.path, c.lineno)
                continue
            else:
                raise AnalysisError(f'{qn}: cannot relate the removed element `{pf.nsrc(x)}` to the registered entry `{pf.nsrc(reg_arg)}`')
        ctx.ok('R3', c2, {'removes': pf.nsrc(x)})
        c3 = cons + '::deregister::entry equality'
        ctx.need(entry.unique is not None, f'{qn}: cannot decide whether two waiters\' entries can compare equal ({entry.eq_why}; component kinds {entry.kinds})')
        ctx.check(bool(entry.unique), 'R3', c3,
                  f'`{pf.nsrc(c)}` finds the element by ==, but the entries of two different waiters with the same weight compare EQUAL ({entry.eq_why}; no compared '
                  f'component is unique to the waiter): the first equal entry is removed, not the cancelled waiter\'s own. ' + witness, m.path, c.lineno,
                  detail={'equality': entry.eq_why, 'kinds': entry.kinds})


def _hand_back(ctx: Ctx, m: pf.Module, fn: pf.FuncDef, cons: str, blocks, hand: List[ast.AST], w: str, evname: str, a: ast.Await) -> None:
    """A weight is handed back on cancellation only if release had granted it (the event is set), and it is the waiter's weight."""
    qn = f'{CLS}.acquire'
    atom = f'{evname}.is_set()'
    for h in hand:
        blk = [b for _, b in blocks if any(h is y for st in b for y in ast.walk(st))][0]
        holder = m.parents()[blk[0]]
        g = _under_event_set(m, holder, h, atom)
        c2 = cons + '::hand back::only if granted'
        ctx.need(g != 'unknown', f'{qn}: the hand-back `{pf.nsrc(h)}` is conditional on something other than `{atom}` (not recognised)')
        ctx.check(g == 'set', 'R3', c2, f'`{pf.nsrc(h)}` runs on cancellation ' + ('when the event is NOT set' if g == 'unset' else 'whether or not the event is set')
                  + f': a waiter cancelled while still queued (never granted) gives back {w} it never took -- {VAL} exceeds the capacity and later acquirers are '
                  f'admitted beyond it', m.path, getattr(h, 'lineno', a.lineno))
        amount = _weight_arg(h, 'release') if isinstance(h, ast.Call) else h.value if isinstance(h, ast.AugAssign) else None
        ctx.need(amount is not None, f'{qn}: hand-back `{pf.nsrc(h)}` not recognised')
        r = _resolve_local(fn, amount)  # type: ignore[arg-type]
        c3 = cons + '::hand back::same weight'
        if pf.nsrc(r) == w or pf.nsrc(r) == f'{evname.rsplit(".", 1)[0]}.{w}':
            ctx.ok('R3', c3, pf.nsrc(amount))
        elif isinstance(r, ast.Constant):
            ctx.bad('R3', c3, f'the clean-up hands back `{pf.nsrc(amount)}`, not the weight `{w}` that release charged for this waiter', m.path, a.lineno)
        else:
            raise AnalysisError(f'{qn}: cannot relate the handed-back amount `{pf.nsrc(amount)}` to the weight `{w}`')


_DETACH = {'asyncio.ensure_future', 'asyncio.create_task', 'asyncio.shield', 'asyncio.Task', 'asyncio.tasks.ensure_future', 'asyncio.tasks.create_task'}


def _acquire_sites(ctx: Ctx, m: pf.Module, fn: pf.FuncDef, recv: str, where: str) -> None:
    """R5 for every `<recv>.acquire(...)` call in fn: the coroutine is awaited directly, so that cancelling the task that wants the weight raises
    CancelledError INSIDE acquire (whose clean-up deregisters the waiter).  Wrapped in ensure_future / create_task / shield the acquire runs in a task
    of its own which a cancellation of the caller does not reach."""
    par = m.parents()
    for c in ast.walk(fn):
        if not (isinstance(c, ast.Call) and pf.dotted(c.func) == f'{recv}.acquire') or m.enclosing_func(c) is not fn:
            continue
        cons = f'{where}::{pf.nsrc(c)}::awaited by the holder'
        p = par.get(c)
        if isinstance(p, ast.Await):
            ctx.ok('R5', cons, 'awaited directly')
            continue
        origin = cf.origin(m, p.func) if isinstance(p, ast.Call) else None
        detach = isinstance(p, ast.Call) and any(x is c for x in p.args) and (origin in _DETACH or (isinstance(p.func, ast.Attribute) and p.func.attr in ('create_task', 'ensure_future')))
        ctx.need(detach, f'{where}: `{pf.nsrc(p) if p is not None else pf.nsrc(c)}`: the acquire coroutine is neither awaited directly nor handed to ensure_future/create_task/shield '
                 f'(wrapper not analysed)')
        st = par.get(p)
        task = st.targets[0].id if isinstance(st, ast.Assign) and len(st.targets) == 1 and isinstance(st.targets[0], ast.Name) and st.value is p else None
        cfg = pf.cfg(fn)
        spawn = [n for n in cfg.nodes if n.ast is not None and any(x is p for x in ast.walk(n.ast))]
        ctx.need(len(spawn) >= 1, f'{where}: cannot locate `{pf.nsrc(p)}` in the CFG')
        S = spawn[0]
        awaits = [(n, x) for n in af.stmt_nodes(cfg, pf.node_has_await) if n is S or af.direct(cfg, S, n) for x in pf.walk_shallow(n.ast) if isinstance(x, ast.Await)]
        ctx.need(awaits, f'{where}: `{pf.nsrc(p)}` is never awaited (not analysed)')
        uncovered = []
        for n, x in awaits:
            blocks, _ = af.cancel_blocks(m, fn, x)
            calls = [pf.dotted(k.func) for _, blk in blocks for s_ in blk for k in ast.walk(s_) if isinstance(k, ast.Call)]
            if task is None or f'{task}.cancel' not in calls:
                uncovered.append(x)
        if uncovered:
            u = uncovered[0]
            on_task = isinstance(u.value, ast.Name) and u.value.id == task
            hist = (f'history: the inner task is granted the weight and finishes; before the waiting task resumes from `{pf.nsrc(u)}` it is cancelled -> CancelledError is raised there '
                    f'with the weight taken, and nobody calls release(n)' if on_task else
                    f'history: the capacity is exhausted, C enters and its inner acquire queues; C is cancelled -> CancelledError leaves `{pf.nsrc(u)}` but the inner acquire stays in '
                    f'the waiter list; a later release grants it (value -= n) and nobody ever calls release(n) for it')
            ctx.bad('R5', cons, f'`{pf.nsrc(st if task else p)}` runs the acquire in a task of its own, outside the clean-up of acquire: when the waiting task is cancelled at '
                    f'`{pf.nsrc(u)}` no except/finally there cancels the inner task and returns a weight it was granted ({task or "<task>"}.cancel() / release). {hist} -- the cancelled '
                    f'waiter has consumed capacity for good', m.path, c.lineno)
        else:
            raise AnalysisError(f'{where}: detached acquire `{pf.nsrc(p)}` with an explicit {task}.cancel() on cancellation: the grant/cancel race is not analysed')


def _manager_generator(ctx: Ctx, m: pf.Module, am: pf.FuncDef, file: str = F, owner: str = CM, cons: str = f'{F}::{CLS}.acquire_manager', recv: Optional[str] = None) -> Optional[str]:
    """A context manager written as an @asynccontextmanager generator: same obligations as the class form, on the generator's CFG (exception
    edges included): the release is reached only after the acquire COMPLETED (an acquire inside the `try` whose `finally` releases gives the
    weight back although it was never granted -- cancellation while queued, or acquire's own hand-back), every exit after the acquire releases
    exactly once, with the weight that was acquired, and nothing suspends between the grant and the protected region.  Returns the weight parameter."""
    ctx.need(isinstance(am, ast.AsyncFunctionDef), f'{cons}: generator form is not `async def`')
    params = [a.arg for a in am.args.args]
    if recv is None:
        ctx.need(len(params) == 2, f'{cons}: parameters changed: {params}')
        recv = params[0]
    _acquire_sites(ctx, m, am, recv, cons)
    wcands = [pf.nsrc(_resolve_local(am, wa)) for c in ast.walk(am) if isinstance(c, ast.Call) and pf.dotted(c.func) == f'{recv}.acquire'
              for wa in [_weight_arg(c, 'acquire')] if wa is not None]
    others = [x for x in params if x != recv]
    w = wcands[0] if wcands and wcands[0] in others else (others[0] if len(others) == 1 else None)
    ctx.need(w is not None, f'{cons}: cannot tell which parameter of {params} is the weight')
    ctx.need(len(pf.assignments(am).get(w, [])) == 1 and len(pf.assignments(am).get(recv, [])) == 1, f'{cons}: `{w}` / `{recv}` re-bound inside the context manager')
    cfg = pf.cfg(am)
    ys = [n for n in cfg.nodes if n.ast is not None and n.kind in ('stmt', 'return') and any(isinstance(x, (ast.Yield, ast.YieldFrom)) for x in pf.walk_shallow(n.ast))]
    ctx.need(len(ys) == 1, f'{cons}: expected exactly one yield in the context manager, found {len(ys)}')
    Y = ys[0]
    acq = af.stmt_nodes(cfg, lambda n: any(isinstance(x, ast.Await) and pf.call_name(x) == f'{recv}.acquire' for x in ast.walk(n.ast)))
    rel = af.stmt_nodes(cfg, lambda n: af.node_is_call(n, f'{recv}.release') is not None)
    un = _uninlined(par_cls, am, recv, allow=('acquire', 'release')) if (par_cls := m.parents().get(am)) is not None and isinstance(par_cls, ast.ClassDef) else []
    ctx.need(not un, f'{cons}: still calls {un[0] if un else ""} (helper not inlined)')
    if not acq or not rel:
        other = [pf.nsrc(c) for c in ast.walk(am) if isinstance(c, ast.Call) and isinstance(c.func, ast.Attribute) and c.func.attr in ('acquire', 'release')
                 and pf.dotted(c.func) not in (f'{recv}.acquire', f'{recv}.release')]
        ctx.need(not other, f'{cons}: `{other[0] if other else ""}`: cannot tell whether the receiver is the semaphore `{recv}`')
    ok = len(acq) == 1 and cfg.dominated_by(Y, lambda n: n is acq[0]) and not af.direct(cfg, acq[0], acq[0])
    if ok:
        c = af.node_is_call(acq[0], f'{recv}.acquire')
        wa = _weight_arg(c, 'acquire') if c is not None else None
        ctx.need(wa is not None, f'{cons}: argument shape of `{pf.nsrc(c) if c is not None else "?"}` not recognised')
        ok = pf.nsrc(_resolve_local(am, wa)) == w  # type: ignore[arg-type]
        later = [n for n in af.stmt_nodes(cfg, pf.node_has_await) if n is not acq[0] and n is not Y and af.direct(cfg, acq[0], n)]
        ok = ok and not later
    ctx.check(ok, 'R2', f'{file}::{owner}.__aenter__', f'the context manager does not `await {recv}.acquire({w})` exactly once before its yield as its only suspension point', m.path, am.lineno)
    if not (len(acq) == 1 and rel):
        ctx.check(bool(rel), 'R2', f'{file}::{owner}.__aexit__', 'the context manager never releases the acquired weight', m.path, am.lineno)
        return w
    A = acq[0]
    # (a) release only after a completed acquire: no path to a release that skips the acquire or leaves it through its exception edge
    skip = cfg.path_avoiding(cfg.entry, lambda n: any(n is r for r in rel), lambda n: n is A)
    viaexc = cfg.path_avoiding(A, lambda n: any(n is r for r in rel), lambda n: n is A, edge_ok=lambda a, b, lab: not (a is A) or lab == 'exc')
    # (b) after the acquire completed every exit passes exactly one release of the same weight
    leak = af.must_pass(cfg, A, lambda n: n is cfg.exit or n is cfg.raise_exit, lambda n: any(n is r for r in rel), edge_ok=lambda a, b, lab: not (a is A and lab == 'exc'))
    twice = any(af.direct(cfg, r1, r2) for r1 in rel for r2 in rel)
    args_ok = all((c := af.node_is_call(r, f'{recv}.release')) is not None and (wa2 := _weight_arg(c, 'release')) is not None and pf.nsrc(_resolve_local(am, wa2)) == w
                  for r in rel)
    pre = [n for n in cfg.nodes if n.ast is not None and pf.node_has_await(n) and n is not A and n is not Y and any(af.direct(cfg, n, r) for r in rel)]
    msg = None
    if skip is not None or viaexc is not None:
        msg = (f'`{rel[0].text()}` is reached when `await {recv}.acquire({w})` did NOT complete (the acquire sits inside the try whose finally releases): a waiter cancelled while queued, or '
               f'one that acquire already handed back, releases {w} it never held -- value exceeds max and later acquirers are admitted beyond capacity')
    elif not any(lab == 'exc' for _, lab in Y.succ):
        msg = ('the `yield` is not protected by try/finally: when the body of `async with` raises or is cancelled the exception is thrown into the generator at the yield and the '
               'release is skipped -- capacity is lost for good')
    elif leak is not None:
        msg = f'after the acquire completed the exit via `{leak[-2].text() if len(leak) > 1 else "?"}` does not release the weight: capacity is lost for good'
    elif twice:
        msg = 'one exit releases the weight twice'
    elif not args_ok:
        msg = f'the released weight is not the acquired `{w}`'
    elif pre:
        msg = f'`{pre[0].text()}` suspends before the release: a cancellation there skips it'
    ctx.check(msg is None, 'R2', f'{file}::{owner}.__aexit__', msg or '', m.path, rel[0].lineno)
    ctx.ok('R2', cons, '@asynccontextmanager generator form')
    return w


def _manager_class(ctx: Ctx, m: pf.Module, cm: ast.ClassDef, file: str, sem_param: Optional[str] = None) -> str:
    """A context-manager class holding (semaphore, weight): __aenter__ acquires the stored weight once, directly awaited, as its last suspension
    point; __aexit__ releases the same stored weight once, unconditionally, before any suspension point.  Returns the constructor parameter that is the weight."""
    name = cm.name
    init = af.method(m, cm, '__init__')
    a = init.args
    ctx.need(not (a.vararg or a.kwarg or a.kwonlyargs or a.posonlyargs), f'{name}.__init__: parameter kinds not analysed')
    params = [x.arg for x in a.args]
    if sem_param is None:
        ctx.need(len(params) == 3, f'{name}.__init__ parameters changed: {params}')
        sem_param = params[1]
    fields = {}
    for st in init.body:
        tgt = st.targets[0] if isinstance(st, ast.Assign) and len(st.targets) == 1 else st.target if isinstance(st, ast.AnnAssign) else None
        val = getattr(st, 'value', None)
        if isinstance(tgt, ast.Attribute) and isinstance(val, ast.Name):
            fields[pf.nsrc(tgt)] = val.id
    sem_f = [k for k, v in fields.items() if v == sem_param]
    ctx.need(len(sem_f) == 1, f'{name}.__init__ does not store the semaphore `{sem_param}` in exactly one attribute')
    en = af.method(m, cm, '__aenter__')
    ex = af.method(m, cm, '__aexit__')
    used = [pf.nsrc(c.args[0]) for c in ast.walk(cm) if isinstance(c, ast.Call) and pf.dotted(c.func) in (f'{sem_f[0]}.acquire', f'{sem_f[0]}.release') and len(c.args) == 1]
    wf = [k for k in fields if k in used and fields[k] != sem_param and fields[k] in params]
    w_f = wf[:1] or [k for k, v in fields.items() if len(params) == 3 and v == params[2]]
    ctx.need(len(w_f) == 1, f'{name}.__init__ does not store (semaphore, weight) in two attributes')
    for st in ast.walk(cm):
        if isinstance(st, ast.Attribute) and isinstance(st.ctx, (ast.Store, ast.Del)) and pf.nsrc(st) in (sem_f[0], w_f[0]):
            ctx.need(m.enclosing_func(st) is init, f'{name}: {pf.nsrc(st)} reassigned outside __init__')
    for fn_ in (st for st in cm.body if isinstance(st, (ast.FunctionDef, ast.AsyncFunctionDef))):
        _acquire_sites(ctx, m, fn_, sem_f[0], f'{file}::{name}.{fn_.name}')
        if fn_ is not en and fn_ is not ex:
            bad_use = [c for c in ast.walk(fn_) if isinstance(c, ast.Call) and pf.dotted(c.func) in (f'{sem_f[0]}.acquire', f'{sem_f[0]}.release')]
            ctx.need(not bad_use, f'{name}.{fn_.name}: acquires/releases outside __aenter__/__aexit__ (not analysed)')
    ctx.need(isinstance(en, ast.AsyncFunctionDef) and isinstance(ex, ast.AsyncFunctionDef), f'{name}: __aenter__/__aexit__ are not coroutines')

    def stored(fn_: pf.FuncDef, e: Optional[ast.AST]) -> str:
        """'same' -- e is the stored weight; 'other' -- recognisably something else (a constant, another field, arithmetic on the weight);
        'unknown' otherwise."""
        if e is None:
            return 'unknown'
        r = _resolve_local(fn_, e)
        if pf.nsrc(r) == w_f[0]:
            return 'same'
        if isinstance(r, ast.Constant) or pf.nsrc(r) in fields or (isinstance(r, (ast.BinOp, ast.UnaryOp)) and af.mentions(r, w_f[0])):
            return 'other'
        return 'unknown'
    for fn_, what in ((en, '__aenter__'), (ex, '__aexit__')):
        un = _uninlined(cm, fn_, fn_.args.args[0].arg if fn_.args.args else 'self')
        ctx.need(not un, f'{name}.{what}: still calls {un[0] if un else ""} (helper not inlined): acquisition / release not visible in {what} itself')
    cfg = pf.cfg(en)
    acq = af.stmt_nodes(cfg, lambda n: any(isinstance(x, ast.Await) and pf.call_name(x) == f'{sem_f[0]}.acquire' for x in ast.walk(n.ast)))
    if not acq:
        other = [pf.nsrc(c) for c in ast.walk(en) if isinstance(c, ast.Call) and isinstance(c.func, ast.Attribute) and c.func.attr == 'acquire']
        ctx.need(not other, f'{name}.__aenter__: `{other[0] if other else ""}`: cannot tell whether the receiver is the stored semaphore {sem_f[0]}')
    ok = len(acq) == 1 and cfg.dominated_by(cfg.exit, lambda n: n is acq[0]) and not af.direct(cfg, acq[0], acq[0])
    if ok:
        c = af.node_is_call(acq[0], f'{sem_f[0]}.acquire')
        how = stored(en, _weight_arg(c, 'acquire') if c is not None else None)
        ctx.need(how != 'unknown', f'{name}.__aenter__: cannot relate the acquired amount in `{pf.nsrc(c) if c is not None else "?"}` to the stored weight {w_f[0]}')
        ok = how == 'same'
        # no other suspension point after the acquire inside __aenter__ (a cancel there would skip __aexit__)
        later = [n for n in af.stmt_nodes(cfg, pf.node_has_await) if n is not acq[0] and af.direct(cfg, acq[0], n)]
        ok = ok and not later
    ctx.check(ok, 'R2', f'{file}::{name}.__aenter__', f'__aenter__ does not `await {sem_f[0]}.acquire({w_f[0]})` exactly once on every path as its last suspension point',
              m.path, en.lineno)
    cfg = pf.cfg(ex)
    rel_all = af.stmt_nodes(cfg, lambda n: af.node_is_call(n, f'{sem_f[0]}.release') is not None)
    if not rel_all:
        other = [pf.nsrc(c) for c in ast.walk(ex) if isinstance(c, ast.Call) and isinstance(c.func, ast.Attribute) and c.func.attr == 'release']
        ctx.need(not other, f'{name}.__aexit__: `{other[0] if other else ""}`: cannot tell whether the receiver is the stored semaphore {sem_f[0]}')
    rel_stmts = {id(n.ast): n for n in rel_all}       # a `finally` body is duplicated per continuation in the CFG: one statement, several nodes
    rel = list(rel_stmts.values())
    ok = len(rel) == 1 and cfg.dominated_by(cfg.exit, lambda n: any(n is r for r in rel_all)) and not any(af.direct(cfg, r1, r2) for r1 in rel_all for r2 in rel_all)
    if ok:
        c = af.node_is_call(rel[0], f'{sem_f[0]}.release')
        how = stored(ex, _weight_arg(c, 'release') if c is not None else None)
        ctx.need(how != 'unknown', f'{name}.__aexit__: cannot relate the released amount in `{pf.nsrc(c) if c is not None else "?"}` to the stored weight {w_f[0]}')
        ok = how == 'same'
        pre = [n for n in cfg.nodes if n.ast is not None and pf.node_has_await(n) and any(af.direct(cfg, n, r) for r in rel_all)]
        ok = ok and not pre
    ctx.check(ok, 'R2', f'{file}::{name}.__aexit__', f'__aexit__ does not release exactly the acquired weight `{w_f[0]}` once, unconditionally (normal, error and '
              f'cancellation exits) and before any suspension point (found {[n.text() for n in rel]})', m.path, ex.lineno)
    return fields[w_f[0]]


def _manager(ctx: Ctx, m: pf.Module) -> None:
    cls0 = m.cls(CLS)
    am0 = af.method(m, cls0, 'acquire_manager')
    if any(d.split('.')[-1] == 'asynccontextmanager' for d in pf.decorator_names(am0)):
        _manager_generator(ctx, m, am0)
        return
    cm = m.cls(CM)
    init = af.method(m, cm, '__init__')
    params = [a.arg for a in init.args.args]
    ctx.need(len(params) == 3, f'{CM}.__init__ parameters changed: {params}')
    wpar = _manager_class(ctx, m, cm, F)
    cls = m.cls(CLS)
    am = af.method(m, cls, 'acquire_manager')
    ctx.need(isinstance(am, ast.FunctionDef), f'{CLS}.acquire_manager is a coroutine (call sites `async with x.acquire_manager(w)` not analysed)')
    p2 = [a.arg for a in am.args.args]
    ctx.need(len(p2) == 2 and not (am.args.vararg or am.args.kwarg or am.args.kwonlyargs or am.args.posonlyargs), f'{CLS}.acquire_manager parameters changed: {p2}')
    ctx.need(all(len(pf.assignments(am).get(x, [])) == 1 for x in p2), f'{CLS}.acquire_manager: a parameter is re-bound')
    rets = [r for r in pf.walk_shallow(am) if isinstance(r, ast.Return)]
    cfg = pf.cfg(am)
    ctx.need(rets and cfg.path_avoiding(cfg.entry, lambda n: n is cfg.exit, lambda n: n.kind == 'return') is None, f'{CLS}.acquire_manager does not end in a return on every path')
    sem_par = [x for x in params[1:] if x != wpar]
    ctx.need(len(sem_par) == 1, f'{CM}.__init__: cannot tell the semaphore parameter from {params}')
    verdict = True
    for r in rets:
        v = pf.resolve_expr(am, r.value) if r.value is not None else None
        ctx.need(isinstance(v, ast.Call) and cf.local_class(m, v.func) is cm, f'{CLS}.acquire_manager: returns `{pf.nsrc(r.value) if r.value is not None else None}`, '
                 f'which is not (recognisably) a {CM}')
        sem_a, w_a = _arg_for(init, v, sem_par[0], True), _arg_for(init, v, wpar, True)  # type: ignore[arg-type]
        ctx.need(sem_a is not None and w_a is not None and not any(isinstance(x, ast.Starred) for x in v.args) and not any(k.arg is None for k in v.keywords),  # type: ignore[union-attr]
                 f'{CLS}.acquire_manager: cannot bind the arguments of `{pf.nsrc(v)}` to {CM}.__init__{tuple(params[1:])}')
        wr = _resolve_local(am, w_a)  # type: ignore[arg-type]
        sr = _resolve_local(am, sem_a)  # type: ignore[arg-type]
        good = pf.nsrc(sr) == p2[0] and pf.nsrc(wr) == p2[1]
        if not good:
            # evidence: another semaphore / a weight that is recognisably not the requested one
            known = (isinstance(wr, ast.Constant) or pf.names_in(wr) <= set(p2)) and (isinstance(sr, ast.Constant) or pf.names_in(sr) <= set(p2))
            ctx.need(known, f'{CLS}.acquire_manager: cannot relate the arguments of `{pf.nsrc(v)}` to (self, {p2[1]})')
        verdict = verdict and good
    ctx.check(verdict, 'R2', f'{F}::{CLS}.acquire_manager', f'does not return {CM}(self, n)', m.path, am.lineno)


def _upper(m: pf.Module, e: ast.AST) -> Optional[Fraction]:
    v = af.const_number(m, e)
    if v is not None:
        return v
    if isinstance(e, ast.Call) and pf.dotted(e.func) == 'min' and e.args and not e.keywords:
        ups = [u for u in (_upper(m, a) for a in e.args) if u is not None]
        return min(ups) if ups else None
    return None


def _bind_param(fn: pf.FuncDef, call: ast.Call, node: ast.AST, skip_self: bool) -> Optional[str]:
    """Name of the parameter of fn that receives the argument expression `node` of `call`."""
    a = fn.args
    if a.vararg or a.kwarg or a.posonlyargs or any(isinstance(x, ast.Starred) for x in call.args) or any(k.arg is None for k in call.keywords):
        return None
    names = [x.arg for x in a.args][1 if skip_self else 0:]
    for i, x in enumerate(call.args):
        if x is node:
            return names[i] if i < len(names) else None
    for k in call.keywords:
        if k.value is node:
            return k.arg if k.arg in names + [x.arg for x in a.kwonlyargs] else None
    return None


def _arg_for(fn: pf.FuncDef, call: ast.Call, pname: str, skip_self: bool) -> Optional[ast.AST]:
    names = [x.arg for x in fn.args.args][1 if skip_self else 0:]
    if pname in names and names.index(pname) < len(call.args):
        return call.args[names.index(pname)]
    for k in call.keywords:
        if k.arg == pname:
            return k.value
    return None


def _copier(ctx: Ctx) -> None:
    """Closure over every expression of copier.py that carries the transfer semaphore: the attribute `xfer_sema`, parameters it is handed to
    (constructors / functions of this module) and the attributes those are stored in.  Every use must be construction, hand-over, a read of
    value/max, or an acquisition whose release is guaranteed: `async with X.acquire_manager(w)`, `async with K(X, w, ...)` for a context-manager class /
    @asynccontextmanager function of this module (analysed like _AcquireManager), or the manual `await X.acquire(w)` + try/finally."""
    m = pf.load(CP)
    par = m.parents()
    # the transfer semaphore is the attribute that is bound to a WeightedSemaphore(...) (whatever it is called; `xfer_sema` today)
    attrs = {t.attr for st in ast.walk(m.tree) if isinstance(st, (ast.Assign, ast.AnnAssign)) and isinstance(getattr(st, 'value', None), ast.Call)
             and (cf.origin(m, st.value.func) or '').split('.')[-1] == CLS  # type: ignore[union-attr]
             for t in (st.targets if isinstance(st, ast.Assign) else [st.target]) if isinstance(t, ast.Attribute)} or {'xfer_sema'}
    fparams: set = set()          # (function node, parameter name) that receive the semaphore
    managers: dict = {}           # id(class/function node) -> (node, sem param)
    funcs_by_name = {st.name: st for st in m.tree.body if isinstance(st, (ast.FunctionDef, ast.AsyncFunctionDef))}

    def sem_nodes():
        for n in ast.walk(m.tree):
            if isinstance(n, ast.Attribute) and n.attr in attrs:
                yield n
            elif isinstance(n, ast.Name) and isinstance(n.ctx, ast.Load) and any(m.enclosing_func(n) is f and n.id == p_ for f, p_ in fparams):
                yield n

    def callee_of(call: ast.Call):
        lc = cf.local_class(m, call.func)
        if lc is not None:
            init = [st for st in lc.body if isinstance(st, ast.FunctionDef) and st.name == '__init__']
            return (lc, init[0], True) if init else None
        if isinstance(call.func, ast.Name) and call.func.id in funcs_by_name:
            return (funcs_by_name[call.func.id], funcs_by_name[call.func.id], False)
        return None

    changed = True
    while changed:
        changed = False
        for n in list(sem_nodes()):
            p = par.get(n)
            if isinstance(p, ast.Call) and (any(a is n for a in p.args) or any(k.value is n for k in p.keywords)):
                tgt = callee_of(p)
                if tgt is None:
                    continue
                owner, fn_, skip = tgt
                pn = _bind_param(fn_, p, n, skip)
                if pn is not None and (fn_, pn) not in fparams:
                    fparams.add((fn_, pn))
                    changed = True
            elif isinstance(p, (ast.Assign, ast.AnnAssign)) and p.value is n:
                t = p.targets[0] if isinstance(p, ast.Assign) and len(p.targets) == 1 else getattr(p, 'target', None)
                if isinstance(n, ast.Name) and isinstance(t, ast.Attribute) and t.attr not in attrs:
                    attrs.add(t.attr)
                    changed = True
                elif isinstance(t, ast.Name) and m.enclosing_func(n) is not None and (m.enclosing_func(n), t.id) not in fparams:
                    # a local alias `sema = self.xfer_sema`: its uses are uses of the semaphore
                    fparams.add((m.enclosing_func(n), t.id))
                    changed = True

    def is_cm_class(c: ast.AST) -> bool:
        return isinstance(c, ast.ClassDef) and {'__aenter__', '__aexit__'} <= {st.name for st in c.body if isinstance(st, (ast.FunctionDef, ast.AsyncFunctionDef))}

    def is_cm_func(f: ast.AST) -> bool:
        return isinstance(f, (ast.FunctionDef, ast.AsyncFunctionDef)) and any(d.split('.')[-1] == 'asynccontextmanager' for d in pf.decorator_names(f))

    caps: List[Fraction] = []
    weights = []
    analysed: dict = {}

    def with_site(call: ast.Call, q: str, lineno: int) -> Optional[bool]:
        """True: the manager built by `call` is entered by an `async with` (directly, or through a local bound once and used only there);
        False: the manager is recognisably NOT entered (the call is a statement of its own: its result is dropped); None: anything else."""
        item = par.get(call)
        stmt = par.get(item) if item is not None else None
        if isinstance(item, ast.withitem) and item.context_expr is call and isinstance(stmt, ast.AsyncWith):
            return True
        if isinstance(item, ast.Expr):
            return False
        fn_ = m.enclosing_func(call)
        if isinstance(item, (ast.Assign, ast.AnnAssign)) and item.value is call and fn_ is not None:
            t = item.targets[0] if isinstance(item, ast.Assign) and len(item.targets) == 1 else getattr(item, 'target', None)
            if isinstance(t, ast.Name) and len(pf.assignments(fn_).get(t.id, [])) == 1:
                uses = [x for x in ast.walk(fn_) if isinstance(x, ast.Name) and x.id == t.id and isinstance(x.ctx, ast.Load)]
                if len(uses) == 1:
                    it2 = par.get(uses[0])
                    if isinstance(it2, ast.withitem) and it2.context_expr is uses[0] and isinstance(par.get(it2), ast.AsyncWith):
                        return True
        return None

    for n in list(sem_nodes()):
        fn = m.enclosing_func(n)
        q = m.qualname(fn) if fn is not None else '<module>'
        p = par.get(n)
        encl_cls = par.get(fn) if fn is not None else None
        in_manager = (is_cm_class(encl_cls) and any((st, pn) in fparams for st in encl_cls.body if isinstance(st, ast.FunctionDef) and st.name == '__init__' for pn in [x.arg for x in st.args.args])) \
            or (fn is not None and is_cm_func(fn) and any(f is fn for f, _ in fparams))
        if isinstance(n, ast.Attribute) and isinstance(n.ctx, ast.Store):
            val = getattr(p, 'value', None)
            cons = f'{CP}::{q}::{pf.nsrc(p)}'
            if isinstance(val, ast.Name) and fn is not None and val.id in [a.arg for a in fn.args.args]:
                ctx.ok('R2', cons, 'handed over by the caller')
            elif isinstance(val, ast.Call) and (cf.origin(m, val.func) or '').split('.')[-1] == CLS:
                cap_e = val.args[0] if len(val.args) == 1 and not val.keywords else val.keywords[0].value if not val.args and len(val.keywords) == 1 \
                    and val.keywords[0].arg == _WP.get('__init__') else None
                ctx.need(cap_e is not None, f'{cons}: argument shape of `{pf.nsrc(val)}` not recognised')
                if fn is not None and isinstance(cap_e, ast.Name) and cap_e.id not in [a.arg for a in fn.args.args]:
                    cap_e = pf.resolve_expr(fn, cap_e)
                cap = af.const_number(m, cap_e)  # type: ignore[arg-type]
                ctx.need(cap is not None, f'{cons}: capacity `{pf.nsrc(cap_e)}` is not a constant expression')
                caps.append(cap)  # type: ignore[arg-type]
                ctx.ok('R2', cons, {'capacity': int(cap)})  # type: ignore[arg-type]
            else:
                ctx.need(isinstance(val, ast.Call), f'{cons}: unrecognised initialisation of the transfer semaphore')
                # evidence: another CLASS is instantiated (a name imported / defined as a class, spelled like one); a factory function is not analysed
                o = cf.origin(m, val.func) or ''  # type: ignore[union-attr]
                last = o.split('.')[-1]
                ctx.need(bool(last) and last[:1].isupper() and (cf.local_class(m, val.func) is not None or o != pf.dotted(val.func) or '.' in o),  # type: ignore[union-attr]
                         f'{cons}: the transfer semaphore is built by `{pf.nsrc(val)}` (factory not analysed)')
                ctx.bad('R2', cons, f'the transfer semaphore is built by `{pf.nsrc(val)}`, not by {CLS}(capacity): the analysed semaphore is not the one in use',
                        m.path, n.lineno)
        elif isinstance(p, (ast.Assign, ast.AnnAssign)) and p.value is n and (isinstance(n, ast.Name) or isinstance(
                p.targets[0] if isinstance(p, ast.Assign) and len(p.targets) == 1 else getattr(p, 'target', None), ast.Name)):
            continue  # `self.X = param`: reported at the Store side;  `local = self.X`: the alias is followed
        elif isinstance(p, ast.Attribute) and p.value is n and p.attr == 'acquire_manager':
            call = par.get(p)
            ctx.need(isinstance(call, ast.Call) and call.func is p, f'{CP}::{q}: acquire_manager is not called')
            cons = f'{CP}::{q}::{pf.nsrc(call)}'
            site = with_site(call, q, n.lineno)  # type: ignore[arg-type]
            ctx.need(site is not None, f'{cons}: the manager is neither the context expression of an `async with` nor dropped (hand-over of the manager not analysed)')
            if site:
                wa = _weight_arg(call, 'acquire_manager')  # type: ignore[arg-type]
                ctx.need(wa is not None, f'{cons}: argument shape of acquire_manager not recognised')
                ctx.ok('R2', cons, 'async with')
                weights.append((q, wa, n.lineno))
            else:
                ctx.bad('R2', cons, f'`{pf.nsrc(call)}` is not the context expression of an `async with`: nothing is acquired / the weight is not returned '
                        f'on every exit', m.path, n.lineno)
                if call.args:  # type: ignore[union-attr]
                    weights.append((q, call.args[0], n.lineno))  # type: ignore[union-attr]
        elif isinstance(p, ast.Call) and (any(a is n for a in p.args) or any(k.value is n for k in p.keywords)):
            tgt = callee_of(p)
            ctx.need(tgt is not None, f'{CP}::{q}: the transfer semaphore is handed to `{pf.nsrc(p.func)}`, which is not a class/function of this module (uses there are not analysed)')
            owner, fn_, skip = tgt  # type: ignore[misc]
            pn = _bind_param(fn_, p, n, skip)
            ctx.need(pn is not None, f'{CP}::{q}: cannot bind the semaphore argument of `{pf.nsrc(p)}` to a parameter')
            cons = f'{CP}::{q}::{pf.nsrc(p.func)}(..., {pf.nsrc(n)}, ...)'
            if is_cm_class(owner) or is_cm_func(owner):
                # a context manager of this module wrapping the semaphore: analysed once like _AcquireManager, every construction must be an `async with`
                if id(owner) not in analysed:
                    if is_cm_class(owner):
                        analysed[id(owner)] = _manager_class(ctx, m, owner, CP, pn)  # type: ignore[arg-type]
                    else:
                        analysed[id(owner)] = _manager_generator(ctx, m, owner, CP, owner.name, f'{CP}::{owner.name}', pn)  # type: ignore[arg-type,union-attr]
                wpar = analysed[id(owner)]
                site = with_site(p, q, n.lineno)
                ctx.need(site is not None, f'{cons}: the manager is neither the context expression of an `async with` nor dropped (hand-over of the manager not analysed)')
                if site:
                    warg = _arg_for(fn_, p, wpar, skip)
                    ctx.check(warg is not None, 'R2', cons, f'`{pf.nsrc(p)}` does not pass the weight `{wpar}`', m.path, n.lineno)
                    if warg is not None:
                        weights.append((q, warg, n.lineno))
                else:
                    ctx.bad('R2', cons, f'`{pf.nsrc(p)}` is not the context expression of an `async with`: nothing is acquired / the weight is not returned on every exit',
                            m.path, n.lineno)
            else:
                ctx.ok('R2', cons, 'handed over')
        elif isinstance(p, ast.Attribute) and p.value is n and p.attr in (VAL.split('.')[-1], 'max') and isinstance(p.ctx, ast.Load):
            continue  # read-only look at the counters
        elif in_manager and isinstance(p, ast.Attribute) and p.value is n and p.attr in ('acquire', 'release'):
            continue  # decided by the context-manager analysis above
        elif isinstance(p, ast.Attribute) and p.value is n and p.attr == 'acquire' and isinstance(par.get(p), ast.Call):
            # manual acquire: must be a statement `await X.acquire(w)` directly followed by try/finally releasing the same weight
            call = par[p]
            cons = f'{CP}::{q}::{pf.nsrc(call)}'
            _acquire_sites(ctx, m, fn, pf.nsrc(n), f'{CP}::{q}')  # type: ignore[arg-type]
            if any(f_.rule == 'R5' and f_.key.startswith(f'{CP}::{q}::') for f_ in ctx.findings):
                continue
            aw = par.get(call)
            stmt = par.get(aw) if isinstance(aw, ast.Await) else None
            ctx.need(isinstance(stmt, ast.Expr), f'{cons}: manual acquire is not a plain `await ....acquire(w)` statement')
            holder = par.get(stmt)
            sibs = None
            for fld in ('body', 'orelse', 'finalbody'):
                blk = getattr(holder, fld, None)
                if isinstance(blk, list) and any(x is stmt for x in blk):
                    sibs = blk
            ctx.need(sibs is not None, f'{cons}: cannot locate the statement list of the manual acquire')
            i = [k for k, x in enumerate(sibs) if x is stmt][0]  # type: ignore[union-attr]
            nxt = sibs[i + 1] if i + 1 < len(sibs) else None  # type: ignore[index,arg-type]
            want = pf.nsrc(p.value) + '.release'
            ok = isinstance(nxt, ast.Try) and any(isinstance(c, ast.Call) and pf.dotted(c.func) == want and [pf.nsrc(a) for a in c.args] == [pf.nsrc(a) for a in call.args]  # type: ignore[union-attr]
                                                   for st in nxt.finalbody for c in ast.walk(st))
            ctx.check(ok, 'R2', cons, f'`{pf.nsrc(call)}` is not immediately followed by try/finally releasing the same weight: the weight is not returned '
                      f'when the holder fails or is cancelled', m.path, n.lineno)
            if call.args:  # type: ignore[union-attr]
                weights.append((q, call.args[0], n.lineno))  # type: ignore[union-attr]
        elif isinstance(p, ast.Attribute) and p.value is n and p.attr == 'release' and isinstance(par.get(p), ast.Call):
            inside_finally = False
            cur = par[p]
            while cur is not None and cur is not fn:
                pp = par.get(cur)
                if isinstance(pp, ast.Try) and any(cur is x for x in pp.finalbody):
                    inside_finally = True
                cur = pp
            ctx.need(inside_finally, f'{CP}::{q}: manual `{pf.nsrc(par[p])}` outside a finally block is not analysed')
        else:
            raise AnalysisError(f'{CP}::{q}: unrecognised use of the transfer semaphore: `{pf.nsrc(p) if p is not None else pf.nsrc(n)}` (manual acquire/release pairing is not analysed)')
    ctx.need(len(caps) == 1, f'{CP}: expected one construction of the transfer semaphore, found {len(caps)}')
    if any(f_.rule in ('R2', 'R5') and f_.key.startswith(CP) for f_ in ctx.findings) and not weights:
        ctx.min_counts['R4'] = 0   # the acquisition sites themselves are reported as broken: nothing to bound
    def bound_of(fnode: pf.FuncDef, e: ast.AST, depth: int = 2) -> Optional[Fraction]:
        """Constant upper bound of a weight expression inside fnode: constants / min(..), a local bound once, a parameter all of whose
        call sites in this module pass bounded values."""
        up = _upper(m, e)
        if up is not None:
            return up
        if isinstance(e, ast.Call) and pf.dotted(e.func) == 'min' and e.args and not e.keywords:
            ups = [u for u in (bound_of(fnode, a_, depth) for a_ in e.args) if u is not None]
            return min(ups) if ups else None
        if isinstance(e, ast.Name):
            pnames = [a_.arg for a_ in fnode.args.args + fnode.args.kwonlyargs]
            defs = pf.assignments(fnode).get(e.id, [])
            if e.id not in pnames and len(defs) == 1 and isinstance(defs[0], ast.expr):
                return bound_of(fnode, defs[0], depth)
            if e.id in pnames and len(defs) == 1 and depth > 0:
                sites = [c for c in ast.walk(m.tree) if isinstance(c, ast.Call) and ((isinstance(c.func, ast.Attribute) and c.func.attr == fnode.name)
                                                                                     or (isinstance(c.func, ast.Name) and c.func.id == fnode.name))]
                is_method = isinstance(par.get(fnode), ast.ClassDef)
                ups2 = []
                for c in sites:
                    a_ = _arg_for(fnode, c, e.id, is_method)
                    caller = m.enclosing_func(c)
                    u = bound_of(caller, a_, depth - 1) if a_ is not None and caller is not None else None
                    if u is None:
                        return None
                    ups2.append(u)
                return max(ups2) if ups2 else None
        return None

    for q, wexpr, line in weights:
        fnode = m.func(q)
        up = bound_of(fnode, wexpr)
        cons = f'{CP}::{q}::weight {pf.nsrc(wexpr)}'
        rw = pf.resolve_expr(fnode, wexpr)
        if up is None and isinstance(rw, ast.Name):
            if rw.id in [a.arg for a in fnode.args.args] and len(pf.assignments(fnode).get(rw.id, [])) == 1:
                ctx.bad('R4', cons, f'the requested weight is the unbounded parameter `{rw.id}`: for values above the capacity {caps[0]} '
                        f'`assert n <= self.max` fails / the request can never be granted', m.path, line)
                continue
        ctx.need(up is not None, f'{cons}: no constant upper bound recognised')
        ctx.check(up <= caps[0], 'R4', cons, f'requested weight can reach {up}, above the capacity {caps[0]} the semaphore is built with: '  # type: ignore[operator]
                  f'`assert n <= self.max` fails / the request can never be granted', m.path, line, detail={'upper_bound': int(up), 'capacity': int(caps[0])})  # type: ignore[arg-type]
    ctx.unit('copier_async_with_sites', len(weights))


def _field_names(m0: pf.Module) -> None:
    """Fields and the manager class by what they are, not by how they are called: the counter is the attribute that __init__ binds to its
    capacity parameter and that is written again outside __init__; the waiter list is the attribute __init__ binds to a Sorted*List / list /
    deque; the manager class is the module-local class acquire_manager instantiates.  Unresolved: the historical names stay."""
    global VAL, EV, CM
    VAL, EV, CM = 'self.value', 'self.events', '_AcquireManager'
    cls0 = m0.cls(CLS)
    init = next((f for f in cls0.body if isinstance(f, ast.FunctionDef) and f.name == '__init__'), None)
    if init is not None and len(init.args.args) == 2:
        me, cap = init.args.args[0].arg, init.args.args[1].arg
        written = {n.attr for f in cls0.body if isinstance(f, (ast.FunctionDef, ast.AsyncFunctionDef)) and f is not init for n in ast.walk(f)
                   if isinstance(n, ast.Attribute) and isinstance(n.ctx, ast.Store) and isinstance(n.value, ast.Name) and n.value.id == 'self'}
        vals, evs = [], []
        for st in init.body:
            tgt = st.targets[0] if isinstance(st, ast.Assign) and len(st.targets) == 1 else st.target if isinstance(st, ast.AnnAssign) and st.value is not None else None
            if not (isinstance(tgt, ast.Attribute) and isinstance(tgt.value, ast.Name) and tgt.value.id == me):
                continue
            v = pf.resolve_expr(init, st.value)  # type: ignore[union-attr]
            if isinstance(v, ast.Name) and v.id == cap and tgt.attr in written:
                vals.append(tgt.attr)
            elif (isinstance(v, ast.Call) and (pf.dotted(v.func) or '').split('.')[-1] in ('SortedKeyList', 'SortedList', 'list', 'deque')) or isinstance(v, ast.List):
                evs.append(tgt.attr)
        if len(vals) == 1:
            VAL = f'self.{vals[0]}'
        if len(evs) == 1:
            EV = f'self.{evs[0]}'
    am = next((f for f in cls0.body if isinstance(f, ast.FunctionDef) and f.name == 'acquire_manager'), None)
    if am is not None:
        made = {pf.dotted(c.func) for r in pf.walk_shallow(am) if isinstance(r, ast.Return) and r.value is not None
                for c in [pf.resolve_expr(am, r.value)] if isinstance(c, ast.Call) and cf.local_class(m0, c.func) is not None}
        if len(made) == 1:
            CM = next(iter(made))  # type: ignore[assignment]


def run(ctx: Ctx) -> None:
    ctx.explanation = ('CFG guard-dominance with await-atomicity for every decrement of the counter, exhaustive evaluation of the guards over '
                       '{value<n, ==, >} x {waiters, none}, must-pass coupling of set/pop/decrement in release, pairing in _AcquireManager, closure over '
                       'all uses of xfer_sema in copier.py, and for every await after a waiter registration the set of except/finally blocks that run on CancelledError.')
    ctx.rule('R1', 'every `self.value -= n` is guarded atomically by self.value >= n; release wakes, removes and charges the same head waiter together; '
                   'writer/reader tuple layout agrees', 9)
    ctx.rule('R2', '_AcquireManager acquires/releases the same weight, releases unconditionally; release gives the weight back; '
                   'all copier uses go through `async with acquire_manager(w)`', 9)
    ctx.rule('R3', 'an await that follows a waiter registration deregisters the waiter\'s own entry (found by ==: entries of different waiters never compare equal) / '
                   'hands back exactly a granted weight when it raises CancelledError', 6)
    ctx.rule('R4', 'weights requested by the copier are bounded by the capacity', 2)
    ctx.rule('R5', 'every acquire coroutine is awaited directly by the task that wants the weight (not detached through ensure_future / create_task / shield), '
                   'so that cancelling that task reaches the waiter clean-up inside acquire', 1)
    ctx.assume('asyncio runs one coroutine at a time and switches only at await; Task.cancel() raises CancelledError at the pending await, '
               'also when the awaited event has already been set but the task has not resumed yet')
    m0 = pf.load(F)
    ctx.unit('files', 2)
    _field_names(m0)
    # acquire / release are analysed with their same-class helpers inlined (an extracted slow path / clean-up is seen through) and every
    # method of both classes in one spelling (engines/c2440norm.py: `x = x + n` as `x += n`, boolean locals moved into the test they feed,
    # locals holding an immutable attribute replaced by it, guard clauses)
    m, il = nm.prepare(m0, CLS, ['acquire', 'release'], exclude=('__init__', 'acquire_manager'), drop_absorbed=True, also_classes=(CM,))
    ctx.unit('helpers_inlined', len(il.inlined))
    if any(isinstance(c, ast.ClassDef) and c.name == CM for c in m.tree.body):
        m, il2 = nm.prepare(m, CM, ['__aenter__', '__aexit__'], exclude=('__init__',), drop_absorbed=True)
        ctx.unit('helpers_inlined', len(il2.inlined))
    cls = m.cls(CLS)
    _WP.clear()
    for meth in ('acquire', 'release', 'acquire_manager', '__init__'):
        f_ = next((x for x in cls.body if isinstance(x, (ast.FunctionDef, ast.AsyncFunctionDef)) and x.name == meth), None)
        if f_ is not None and len(f_.args.args) == 2:
            _WP[meth] = f_.args.args[1].arg
    _precheck_decrements(ctx, m, cls)
    guards = af.guarded_decrements(ctx, m, cls, 'R1', VAL, [EV])
    layout = _acquire(ctx, m, cls, guards)
    _release(ctx, m, cls, guards, layout)
    _manager(ctx, m)
    _copier(ctx)
    ctx.unit('functions', 6)
