"""C41 Uncommitted updates have no effect on a batch.

  R1  a job of an update that is not committed can only leave Pending through commit_batch_update: every other statement that can set
      jobs.state from Pending (the children update of mark_job_complete is the only one) must restrict the rows to committed updates;
      the commit-time promotion itself sits in the not-yet-committed branch AND is confined to the rows of the update being committed
      (jobs.update_id = in_update_id, or an id interval within [start_job_id, start_job_id + n_jobs) of that update's batch_updates row,
      decided on linear normal forms of the bounds - rules.c04.update_range_confinement)
  R2  job counts and completion state of batches / job groups: n_jobs grows only in commit_batch_update; `running` is set only there;
      `complete` only by the completion procedures; rows are created complete with n_jobs = 0
  R3  first-update jobs inserted Ready are shielded: every driver selection of jobs to start or cancel goes through job groups in
      state 'running'
  R4  cancel procedures move only committed updates' cancellable counts; cancelling a non-root group requires its creating update to be
      committed
  R5  staged counts reach the scheduler counters only in commit_batch_update (submission never writes user_inst_coll_resources); every read of
      the staging table in commit_batch_update is keyed by (in_batch_id, in_update_id)
  R6  the bunch insert gives a job of a later update (update_id != 1) the state 'Pending' and nothing else: such a job may sit in a job group that is already
      running, where the only thing that keeps the scheduler away from it before the commit is its state (commit_batch_update promotes it).  Decided for the
      value bound to the `state` column of INSERT INTO jobs: the per-job loop of _create_jobs is followed symbolically (helpers inlined at statement and at
      expression level, locals substituted, branches merged into conditional expressions, rejecting branches into the path condition) and the resulting
      decision tree is enumerated over the order classes of the update id w.r.t. the literals it is compared with and the truth values of the other
      conditions (engines/c41init.py); INSERT INTO jobs occurs nowhere else in the batch service
Not decided: histories; completeness of "exactly as if it had not been started" for non-job side effects (e.g. reserved id ranges).
"""
from __future__ import annotations

import ast
from typing import Any, Dict, List, Optional, Set, Tuple

from engines import pyfacts as pf
from engines import sqlfront as sf
from engines import sqlrules as sr
from engines.common import AnalysisError, Ctx
from engines.sqlast import N, text
from rules.c04 import STATES, from_states, state_sets, state_vars, to_values, update_range_confinement

META = dict(
    category='other',
    text='Closed enumeration of the statements through which a job of an uncommitted update could become runnable, counted or complete, each checked for a '
         'committed-update restriction or for being the commit procedure itself; plus writer closed-worlds for n_jobs / state of batches and groups; plus the initial state the bunch insert '
         'gives to jobs of later updates (decision tree of the stored value, enumerated over update-id order classes and condition atoms).',
    note='Trusted: SQL parser, migration replay. Relies on C04 (writers of jobs.state) and C01 (counter writers).',
    technique='static analysis: writer enumeration + guard/WHERE analysis over the effective SQL program and embedded SQL; symbolic flow of one tuple slot with helper inlining + truth table over a finite abstract domain',
    design_ref='DESIGN.md §3 C41',
)


def _mentions_committed(st: N) -> bool:
    """Does the statement restrict rows through batch_updates.committed?"""
    tabs = [t.lower() for t in sf.table_names(st.frm)] if getattr(st, 'frm', None) is not None else []
    for n in st.walk():
        if n.kind == 'col' and n.parts[-1].lower() == 'committed':
            return 'batch_updates' in tabs or any(t.kind == 'table' and t.name.lower() == 'batch_updates' for s in st.walk() if s.kind == 'select' and s.frm is not None for t in sf.from_tables(s.frm))
    return False


def _state_update_role(st: N, tos: Set[str]) -> str:
    """What a statement that rewrites jobs.state is FOR, read off its structure (joined tables, join columns) - never its text: instance keys must survive a
    re-creation of the routine with flipped comparisons, renamed aliases or CASE instead of IF."""
    direct = [t.name.lower() for t in sf.from_tables(st.frm) if t.kind == 'table'] if getattr(st, 'frm', None) is not None else []
    derived = [t for t in sf.from_tables(st.frm) if t.kind == 'derived'] if getattr(st, 'frm', None) is not None else []
    if 'job_parents' in direct:
        conj = list(sf.conjuncts(st.where)) + [c for j in getattr(st.frm, 'joins', []) for c in sf.conjuncts(j.on)]
        by_parent = any(c.kind == 'bin' and c.op == '=' and any(x.kind == 'col' and x.parts[-1].lower() == 'parent_id' for x in (c.left, c.right)) and
                        not all(x.kind == 'col' and len(x.parts) > 1 for x in (c.left, c.right)) for c in conj)
        return 'children release (jobs joined to job_parents on parent_id)' if by_parent else 'jobs joined to job_parents'
    if any('job_parents' in [t.lower() for t in sf.table_names(d.select.frm)] for d in derived if d.select.frm is not None):
        return 'promotion by recount of pending parents'
    return 'jobs.state -> ' + '/'.join(sorted(tos - {'<unchanged>'}))


def _to_values(e: N, param_domain: Dict[str, Set[str]]) -> Set[str]:
    """rules.c04.to_values, plus CASE .. WHEN .. THEN v .. [ELSE v] END (the values of its branches; no ELSE: NULL is not a state, the row keeps none - declined)."""
    if e.kind == 'case':
        if e.default is None:
            raise AnalysisError(f'jobs.state is assigned a CASE without ELSE: {text(e)[:80]}')
        out: Set[str] = set()
        for _c, v in e.whens:
            out |= _to_values(v, param_domain)
        return out | _to_values(e.default, param_domain)
    if e.kind == 'func' and e.name.upper() == 'IF' and len(e.args) == 3:
        return _to_values(e.args[1], param_domain) | _to_values(e.args[2], param_domain)
    return to_values(e, param_domain)


def _sql_key(construct: str) -> str:
    """`batch/sql/<migration>.sql::routine::...` -> `sql::routine::...` (a later migration re-defining the routine must not change the key)."""
    import re
    return re.sub(r'^batch/sql/[^:]+\.sql::', 'sql::', construct)


def _committed_var(r) -> Optional[str]:
    """the variable commit_batch_update reads batch_updates.committed of (in_batch_id, in_update_id) into."""
    for st in sf.all_statements(r.ast.body):
        if st.kind == 'select' and st.into and st.frm is not None and [t.lower() for t in sf.table_names(st.frm)] == ['batch_updates'] and \
                sr.has_eq(st.where, 'batch_id', 'in_batch_id') and sr.has_eq(st.where, 'update_id', 'in_update_id'):
            for (c, _), v in zip(st.cols, st.into):
                if c.kind == 'col' and c.parts[-1].lower() == 'committed' and sr.is_var(v):
                    return v.parts[0].lower()
    return None


def _not_yet_committed(guard, var: str) -> Optional[bool]:
    """does the path condition say the update was not committed before?  True / False (it says committed) / None (it does not say)."""
    for c, p in guard:
        t = c
        pol = p
        while t.kind == 'un' and t.op.upper() == 'NOT':
            t, pol = t.arg, not pol
        if sr.is_var(t) and t.parts[0].lower() == var:
            return not pol
        if t.kind == 'bin' and t.op in ('=', '<=>', '!=', '<>') and any(sr.is_var(x) and x.parts[0].lower() == var for x in (t.left, t.right)):
            other = t.right if sr.is_var(t.left) and t.left.parts[0].lower() == var else t.left
            if other.kind == 'lit' and other.value in (0, 1, True, False):
                truth = bool(other.value) if t.op in ('=', '<=>') else not bool(other.value)    # the condition says: var == truth
                return (not truth) if pol else truth
    return None


def r1(ctx: Ctx, prog: sf.SqlProgram) -> None:
    n = 0
    seen_roles: Dict[str, int] = {}
    for name, r in sorted(prog.routines.items()):
        for st, guard in sf.guarded_statements(r.ast.body):
            v = state_sets(st)
            if v is None:
                continue
            tos = _to_values(v, {'new_state': {'Success', 'Failed', 'Error', 'Cancelled'}})
            svars = state_vars(r.ast, ('in_batch_id', 'in_job_id'))
            single = sr.has_eq(st.where, 'batch_id', 'in_batch_id') and sr.has_eq(st.where, 'job_id', 'in_job_id')
            froms, constrained = from_states(st, guard, svars if single else {})
            if 'Pending' not in froms or tos <= {'Pending', '<unchanged>'}:
                continue  # cannot take a job out of Pending
            n += 1
            role = _state_update_role(st, tos)
            seen_roles[f'{name}::{role}'] = seen_roles.get(f'{name}::{role}', 0) + 1
            cons = f'sql::{name}::{role}' + (f' #{seen_roles[f"{name}::{role}"]}' if seen_roles[f'{name}::{role}'] > 1 else '')
            if name == 'commit_batch_update':
                cvar = _committed_var(r)
                ctx.need(cvar is not None, 'commit_batch_update: the read of batch_updates.committed of the update being committed was not found')
                ok = _not_yet_committed(guard, cvar)
                ctx.check(bool(ok), 'R1', cons, 'the commit-time promotion is not confined to the not-yet-committed branch: it runs ' + ('in the already-committed branch' if ok is False else
                          f'whatever `{cvar}` says (guards {[(text(c)[:40], p) for c, p in guard]})'), r.file, r.line_of(st))
                # ... and to the jobs of THE update being committed: ids are reserved when an update is created and commits are not ordered, so
                # any other id of the batch may belong to an update that is still open (or abandoned for good)
                from engines import c04facts as cf4
                verdict, why = update_range_confinement(r.ast, st, guard, cf4.RoutineLocals(r.ast))
                ctx.need(verdict != 'unknown', f'commit_batch_update: cannot decide whether the commit-time promotion is confined to the jobs of the update being committed: {why}')
                ctx.check(verdict == 'ok', 'R1', cons + '::rows of the committed update only',
                          f'the commit-time promotion of update in_update_id also rewrites jobs of OTHER updates of the batch, which may be uncommitted: {why}. Those jobs are recounted, '
                          'their parent-less ones become Ready (time_ready set), jobs_after_update adds them to the scheduler counters and, sitting in a running job group, they are scheduled '
                          'although their update was never committed', r.file, r.line_of(st))
                continue
            ctx.check(_mentions_committed(st), 'R1', cons,
                      'this statement can move Pending jobs to ' + '/'.join(sorted(tos - {'Pending'})) + ' without restricting them to committed updates (no join to batch_updates.committed on the '
                      'child\'s update): a job inserted by an open update becomes Ready when its parent finishes, is counted by jobs_after_update and can be scheduled before the commit',
                      r.file, r.line_of(st))
    ctx.need(n >= 2, f'only {n} statements that can take a job out of Pending were found')


def _var_sources(routine: N) -> Dict[str, List[Tuple[str, str, N]]]:
    """routine variable -> [(table, column or '<expr>', SELECT .. INTO statement)] for every single-table SELECT .. INTO that assigns it."""
    out: Dict[str, List[Tuple[str, str, N]]] = {}
    for st in sf.all_statements(routine.body):
        if st.kind == 'select' and st.into and st.frm is not None:
            tabs = [t.lower() for t in sf.table_names(st.frm)]
            for (c, _), v in zip(st.cols, st.into):
                if sr.is_var(v):
                    out.setdefault(v.parts[0].lower(), []).append((tabs[0] if len(tabs) == 1 else '+'.join(tabs), c.parts[-1].lower() if c.kind == 'col' else f'<{text(c)[:40]}>', st))
        elif st.kind == 'set':
            for t, _v in st.assigns:
                if t.kind == 'col' and len(t.parts) == 1:
                    out.setdefault(t.parts[0].lower(), []).append(('<set>', '<expr>', st))
        elif st.kind == 'fetch':
            for t in (st.into or []):
                if t.kind == 'col':
                    out.setdefault(t.parts[-1].lower(), []).append(('<cursor>', '<expr>', st))
    return out


def _literal_values(fn_mod: pf.Module, fn: pf.FuncDef, e: ast.AST, depth: int = 3) -> Optional[Set[Any]]:
    """The literal values an expression may take: literals, conditional expressions, single-definition locals, and - for a parameter of a module-level function - the
    arguments of every call of that function in the module (and its default).  None when some alternative is not a literal."""
    if depth <= 0:
        return None
    if isinstance(e, ast.Constant):
        return {e.value}
    if isinstance(e, ast.IfExp):
        a, b = _literal_values(fn_mod, fn, e.body, depth), _literal_values(fn_mod, fn, e.orelse, depth)
        return None if a is None or b is None else a | b
    if isinstance(e, ast.Name):
        params = [a.arg for a in fn.args.posonlyargs + fn.args.args + fn.args.kwonlyargs]
        if e.id in params:
            if any(isinstance(n, ast.Name) and n.id == e.id and isinstance(n.ctx, (ast.Store, ast.Del)) for n in ast.walk(fn)):
                return None
            top = [f for f in fn_mod.tree.body if f is fn]
            if not top:
                return None
            pos = [a.arg for a in fn.args.posonlyargs + fn.args.args]
            defaults = dict(zip(pos[len(pos) - len(fn.args.defaults):], fn.args.defaults))
            defaults.update({a.arg: d for a, d in zip(fn.args.kwonlyargs, fn.args.kw_defaults) if d is not None})
            out: Set[Any] = set()
            used_default = False
            n_calls = 0
            for caller in ast.walk(fn_mod.tree):
                if not isinstance(caller, (ast.FunctionDef, ast.AsyncFunctionDef)):
                    continue
                for c in pf.walk_shallow(caller):
                    if isinstance(c, ast.Call) and isinstance(c.func, ast.Name) and c.func.id == fn.name:
                        n_calls += 1
                        if any(isinstance(a, ast.Starred) for a in c.args) or any(k.arg is None for k in c.keywords):
                            return None
                        arg = None
                        if e.id in pos and pos.index(e.id) < len(c.args):
                            arg = c.args[pos.index(e.id)]
                        for k in c.keywords:
                            if k.arg == e.id:
                                arg = k.value
                        if arg is None:
                            used_default = True
                            continue
                        vs = _literal_values(fn_mod, caller, arg, depth - 1)
                        if vs is None:
                            return None
                        out |= vs
            if used_default or n_calls == 0:
                if e.id not in defaults:
                    return None
                vs = _literal_values(fn_mod, fn, defaults[e.id], depth - 1)
                if vs is None:
                    return None
                out |= vs
            return out
        d = pf.single_def(fn, e.id)
        if isinstance(d, ast.expr):
            return _literal_values(fn_mod, fn, d, depth - 1)
    return None


def r2(ctx: Ctx, prog: sf.SqlProgram) -> None:
    allowed_running = {'commit_batch_update'}
    allowed_complete = {'mark_job_complete', 'mark_job_group_complete'}
    allowed_n_jobs = {'commit_batch_update'}
    seen = 0
    for name, r in sorted(prog.routines.items()):
        srcs = None
        for st, guard in sf.guarded_statements(r.ast.body):
            if st.kind != 'update':
                continue
            tabs = [t for t in sf.from_tables(st.frm) if t.kind == 'table']
            if not tabs or tabs[0].name.lower() not in ('batches', 'job_groups'):
                continue
            tname = tabs[0].name.lower()
            for c, v in st.sets:
                if c.kind != 'col':
                    continue
                col = c.parts[-1].lower()
                if len(c.parts) > 1 and c.parts[-2].lower() not in (tname, (tabs[0].alias or tname).lower()):
                    continue
                lits = sorted({x.value for x in v.walk() if x.kind == 'lit' and isinstance(x.value, str)}) if col == 'state' else []
                cons = f'sql::{name}::UPDATE {tname} SET {col}' + (f' -> {"/".join(lits)}' if lits else '')
                if col == 'n_jobs':
                    seen += 1
                    ctx.check(name in allowed_n_jobs, 'R2', cons, f'{name} changes {tname}.n_jobs; job counts may only grow when an update is committed', r.file, r.line_of(st))
                elif col == 'state':
                    seen += 1
                    vals = set(lits)
                    if 'running' in vals:
                        ctx.check(name in allowed_running, 'R2', cons, f'{name} re-opens a {tname[:-1]} (state running) outside the commit of an update', r.file, r.line_of(st))
                    elif 'complete' in vals:
                        if name not in allowed_complete:
                            ctx.bad('R2', cons, f'{name} sets {tname}.state to complete: only the completion procedures {sorted(allowed_complete)} may, under "completed count = job count"', r.file, r.line_of(st))
                            continue
                        srcs = srcs if srcs is not None else _var_sources(r.ast)
                        # the guard "completed count of this entity = its job count": an equality between a variable read from <..>.n_completed and one read from <tname>.n_jobs
                        pos = [g for g, p in guard if p]
                        found = None
                        others = []
                        for g in pos:
                            if g.kind == 'bin' and g.op in ('=', '<=>') and sr.is_var(g.left) and sr.is_var(g.right):
                                a_, b_ = (srcs.get(x.parts[0].lower(), []) for x in (g.left, g.right))
                                if len(a_) == 1 and len(b_) == 1:
                                    pair = {a_[0][:2], b_[0][:2]}
                                    if ('job_groups_n_jobs_in_complete_states', 'n_completed') in pair:
                                        found = (g, a_[0] if a_[0][1] == 'n_completed' else b_[0], b_[0] if a_[0][1] == 'n_completed' else a_[0])
                                        continue
                            others.append(g)
                        if found is None:
                            # evidence only when every positive guard is a plain comparison (of variables / literals): then none of them is the count test
                            plain = all(g.kind == 'bin' and g.op in ('=', '<=>', '<', '<=', '>', '>=', '!=', '<>') and all(x.kind == 'lit' or sr.is_var(x) for x in (g.left, g.right)) for g in pos)
                            ctx.need(plain, f'{name}: guards {[text(g)[:40] for g in pos]} of `UPDATE {tname} SET state = complete` not recognised')
                            ctx.bad('R2', cons, f'{tname}.state is set to complete under {[text(g)[:50] for g in pos] or "no condition"}: none of these is "completed count (job_groups_n_jobs_in_complete_states.n_completed) = job count"',
                                    r.file, r.line_of(st))
                            continue
                        g, comp, tot = found
                        # like with like: the completed count of THIS entity against ITS n_jobs
                        if tname == 'batches':
                            like = tot[:2] == ('batches', 'n_jobs') and sr.has_eq(tot[2].where, 'id', 'in_batch_id') and sr.has_eq(comp[2].where, 'id', 'in_batch_id') and sr.has_eq(comp[2].where, 'job_group_id', '0')
                            why = f'{text(g)} compares n_completed read by `{text(comp[2])[:90]}` with `{tot[0]}.{tot[1]}` read by `{text(tot[2])[:90]}`'
                        else:
                            keys = [text(x).lower() for c2 in sf.conjuncts(comp[2].where) if c2.kind == 'bin' and c2.op == '=' for x in (c2.left, c2.right)]
                            like = tot[:2] == ('job_groups', 'n_jobs') and sr.has_eq(tot[2].where, 'batch_id', 'in_batch_id') and sr.has_eq(comp[2].where, 'id', 'in_batch_id') and \
                                any(sr.has_eq(tot[2].where, 'job_group_id', k) and sr.has_eq(comp[2].where, 'job_group_id', k) for k in keys)
                            why = f'{text(g)} compares n_completed read by `{text(comp[2])[:90]}` with `{tot[0]}.{tot[1]}` read by `{text(tot[2])[:90]}`'
                        ctx.check(like, 'R2', cons, f'{tname}.state is set to complete when {why}: that is not the completed count of this {tname[:-1]} against its own n_jobs (which only grows when an update is committed)',
                                  r.file, r.line_of(st))
                        if tname == 'batches':
                            ctx.check(like, 'R2', f'sql::{name}::batch completion test', f'the batch is marked complete by comparing something other than the root group\'s n_completed with batches.n_jobs of the same batch: {why}', r.file, r.line_of(st))
                    else:
                        raise AnalysisError(f'{name}: {tname}.state set to {text(v)} not understood')
    ctx.need(seen >= 6, f'only {seen} writes of n_jobs/state on batches/job_groups found')
    # creation rows: complete, n_jobs 0
    m = pf.load('batch/batch/front_end/front_end.py')
    for e in sf.embedded_in(m):
        if e.sql_text is None:
            continue
        for st in e.stmts():
            if st.kind == 'insert' and st.table.lower() in ('batches', 'job_groups'):
                elts = sr.args_tuple(e.fn, e.call.args[1] if len(e.call.args) > 1 else None)
                ctx.need(elts is not None and st.cols is not None and len(elts) == len(st.cols), f'{m.rel}:{e.lineno}: cannot bind insert into {st.table}')
                d = {c.lower(): x for c, x in zip(st.cols, elts)}
                cons = f'{m.rel}::{e.qual}::INSERT INTO {st.table.lower()}'
                ctx.need('state' in d and 'n_jobs' in d, f'{cons}: columns state / n_jobs are not in the column list (column defaults are not analysed)')
                # the function that holds the statement may be nested (transaction function): parameters are looked up in the enclosing module-level function too
                holder = e.fn
                par = m.parents()
                top = holder
                while top is not None and top not in m.tree.body:
                    top = par.get(top)
                vals_s = _literal_values(m, holder, d['state'])
                if vals_s is None and top is not None and top is not holder:
                    vals_s = _literal_values(m, top, d['state'])     # type: ignore[arg-type]
                vals_n = _literal_values(m, holder, d['n_jobs'])
                if vals_n is None and top is not None and top is not holder:
                    vals_n = _literal_values(m, top, d['n_jobs'])    # type: ignore[arg-type]
                ctx.need(vals_s is not None and vals_n is not None, f'{cons}: state `{pf.nsrc(d["state"])}` / n_jobs `{pf.nsrc(d["n_jobs"])}` are not literals (followed through locals, conditional expressions and call sites)')
                ok = vals_s == {'complete'} and vals_n == {0}
                ctx.check(ok, 'R2', cons, f'a new {st.table.lower()[:-1]} row may start with state in {sorted(map(repr, vals_s))}, n_jobs in {sorted(map(repr, vals_n))}; '
                          'it must start complete with 0 jobs so that nothing of it is schedulable before a commit', m.path, e.lineno)


def _stmt_alternatives(m: pf.Module, e: sf.Embedded) -> Optional[List[N]]:
    """statements the call may send (conditional expression between SQL texts, texts held in closure / module-level names); None = not resolvable."""
    from engines import c08ids as ids
    from engines.sqlast import parse_statements, SqlParseError
    if e.sql_text is not None:
        return None if e.parse_error else list(e.stmts())
    texts = ids.sql_alternatives(m, e)
    if texts is None:
        return None
    out: List[N] = []
    for t in texts:
        try:
            out += parse_statements(t)
        except SqlParseError:
            return None
    return out


def r3(ctx: Ctx) -> None:
    """Every driver query that selects jobs for scheduling/cancelling reaches them through job groups / batches in state 'running'."""
    n = 0
    for rel in ('batch/batch/driver/instance_collection/pool.py', 'batch/batch/driver/instance_collection/job_private.py', 'batch/batch/driver/canceller.py'):
        m = pf.load(rel)
        by_call = {id(e.call): e for e in sf.embedded_in(m)}

        def group_selection(x: ast.AST) -> bool:
            e2 = by_call.get(id(x))
            sts = _stmt_alternatives(m, e2) if e2 is not None else None
            return bool(sts) and all(s_.kind == 'select' and s_.frm is not None and sf.table_names(s_.frm)[:1] == ['job_groups'] for s_ in sts)
        for e in sf.embedded_in(m):
            sts = _stmt_alternatives(m, e)
            if sts is None:
                # an execute-style call whose text is not known could be a selection of jobs
                if e.method.startswith(('select', 'execute_and_fetch')) and e.receiver.split('.')[-1] in ('db', 'tx'):
                    raise AnalysisError(f'{rel}::{e.qual}: the SQL of the `{e.method}` call at line {e.lineno} is not a resolvable text; whether it selects jobs outside running job groups is not decided')
                continue
            for st in sts:
                if st.kind != 'select' or st.frm is None:
                    continue
                first = sf.table_names(st.frm)[:1]
                if first == ['job_groups']:
                    tabs = [t for t in sf.from_tables(st.frm) if t.kind == 'table' and t.name.lower() == 'job_groups']
                    quals = {'job_groups'} | {(t.alias or '').lower() for t in tabs}
                    running = any(c.kind == 'bin' and c.op == '=' and any(a.kind == 'col' and a.parts[-1].lower() == 'state' and (len(a.parts) == 1 or a.parts[-2].lower() in quals) and
                                                                          b.kind == 'lit' and b.value == 'running' for a, b in ((c.left, c.right), (c.right, c.left)))
                                  for c in sf.conjuncts(st.where))
                    n += 1
                    ctx.check(running, 'R3', f'{rel}::{e.qual}::job group selection', f'job groups are selected without state = \'running\' (conjuncts {[text(c)[:50] for c in sf.conjuncts(st.where)]}): '
                              'groups of a batch whose first update is not committed would be offered to the scheduler/canceller', m.path, e.lineno)
                elif first == ['jobs']:
                    # a jobs query must be nested in a loop over a job-group selection of the same function
                    loops = sr.enclosing_loops(m, e.call)
                    nested = any(group_selection(c) for lp in loops for c in ast.walk(lp.iter) if isinstance(c, ast.Call))
                    n += 1
                    lits = sorted(f'{(a if a.kind == "col" else b).parts[-1].lower()}={(b if a.kind == "col" else a).value!r}' for c in sf.conjuncts(st.where) if c.kind == 'bin' and c.op == '='
                                  for a, b in [(c.left, c.right)] if {a.kind, b.kind} == {'col', 'lit'})
                    if not nested:
                        # the selection may be driven by job groups through a helper / an argument: only a query that visibly ranges over a whole batch or user is evidence
                        keyed = any(c.kind == 'bin' and c.op == '=' and any(a.kind == 'col' and a.parts[-1].lower() == 'job_group_id' for a in (c.left, c.right)) for c in sf.conjuncts(st.where))
                        ctx.need(not keyed, f'{rel}::{e.qual}: the jobs selection [{", ".join(lits)}] is keyed by job_group_id but not nested in a loop over a job-group selection of the same function; '
                                 'where the job group comes from is not followed')
                    ctx.check(nested, 'R3', f'{rel}::{e.qual}::jobs selection [{", ".join(lits)}]', 'jobs are selected for scheduling / cancelling without going through a job group at all (no job_group_id key, '
                              'no loop over running job groups)', m.path, e.lineno)
    ctx.need(n >= 13, f'only {n} driver selections found')


def r4(ctx: Ctx, prog: sf.SqlProgram) -> None:
    from rules import c01
    from engines import c08ids as ids
    sub = Ctx('C01', ctx.tier)
    for rid in ('R3', 'R4', 'R5', 'R6', 'R7'):
        sub.rule(rid, 'x', 0)
    c01.r4_cancel(sub, prog)
    k = 0
    for inst in sub.instances:
        if inst['rule'] == 'R4' and 'committed only' in inst['construct']:
            k += 1
            ctx.check(inst['holds'], 'R4', _sql_key(inst['construct']), str(inst['detail']))
    ctx.need(k == 2, 'cancel procedures: committed-only clauses not found')
    m = pf.load('batch/batch/batch.py')
    ids.resolve_module_sql(m)
    fn = m.func('cancel_job_group_in_db.cancel')
    cons = f'{m.rel}::cancel_job_group_in_db::group must be committed'
    sel_e = call_e = None
    for e in sorted([e for e in sf.embedded_in(m) if e.fn is fn], key=lambda e: e.lineno):
        sts = _stmt_alternatives(m, e)
        ctx.need(sts is not None and len(sts) == 1, f'{cons}: SQL of the `{e.method}` call at line {e.lineno} not resolved')
        if sts[0].kind == 'call' and sts[0].name.lower() == 'cancel_job_group':
            call_e = e
        elif sts[0].kind == 'select' and 'job_groups' in [t.lower() for t in sf.table_names(sts[0].frm)]:
            sel_e = (e, sts[0])
    ctx.need(sel_e is not None and call_e is not None, f'{cons}: the look-up of the job group / the CALL cancel_job_group were not found')
    sel = sel_e[0] and sel_e[1]
    # the row exists only when the creating update is committed (or the group is the root group): committed is a conjunct (possibly inside `committed OR <root>`), and batch_updates is joined on the group's own update
    def mentions_committed(c: N) -> bool:
        return any(n.kind == 'col' and n.parts[-1].lower() == 'committed' for n in c.walk())
    conj = sf.conjuncts(sel.where)
    committed_conj = [c for c in conj if mentions_committed(c)]
    ons = [c for j in sel.frm.joins for c in sf.conjuncts(j.on)] + conj

    def joins(col: str) -> bool:
        for c in ons:
            if c.kind == 'bin' and c.op == '=' and c.left.kind == 'col' and c.right.kind == 'col' and c.left.parts[-1].lower() == col and c.right.parts[-1].lower() == col and len(c.left.parts) > 1 and len(c.right.parts) > 1:
                return True
        return False
    has_bu = 'batch_updates' in [t.lower() for t in sf.table_names(sel.frm)]
    ok_sql = bool(committed_conj) and has_bu and joins('update_id') and joins('batch_id')
    # CALL only on the "row found" side of a test on the look-up's result
    g = pf.cfg(fn)
    ln = g.node_of(sel_e[0].call)
    ctx.need(len(ln) == 1 and isinstance(ln[0].ast, ast.Assign) and isinstance(ln[0].ast.targets[0], ast.Name), f'{cons}: the result of the look-up is not bound to a name')
    var = ln[0].ast.targets[0].id
    call_n = g.node_of(call_e.call)
    ctx.need(len(call_n) == 1, f'{cons}: CFG node of the CALL not found')
    accept = {}
    for t in g.find(lambda n_: n_.kind == 'test'):
        a = t.ast
        neg = False
        while isinstance(a, ast.UnaryOp) and isinstance(a.op, ast.Not):
            neg, a = not neg, a.operand
        found_when: Optional[bool] = None
        if isinstance(a, ast.Name) and a.id == var:
            found_when = True
        elif isinstance(a, ast.Compare) and len(a.ops) == 1 and isinstance(a.left, ast.Name) and a.left.id == var and isinstance(a.comparators[0], ast.Constant) and a.comparators[0].value is None:
            found_when = isinstance(a.ops[0], (ast.IsNot, ast.NotEq))
        if found_when is not None:
            accept[t.id] = 'T' if found_when != neg else 'F'
    ctx.need(accept, f'{cons}: no test on the result `{var}` of the look-up was recognised')
    guarded = g.path_avoiding(g.entry, lambda n_: n_ is call_n[0], lambda n_: False, edge_ok=lambda a, b, lab: not (a.id in accept and lab == accept[a.id])) is None
    ctx.check(ok_sql and guarded, 'R4', cons, ('the look-up that decides whether a job group may be cancelled ' + ('has no conjunct on batch_updates.committed' if not committed_conj else
              'does not join batch_updates on the group\'s own (batch_id, update_id)') if not ok_sql else 'CALL cancel_job_group is reachable without the look-up having found the row') +
              ': a job group created by an update that is not committed can be cancelled (the cancel procedure would then write cancellation state for something that does not exist yet for the batch)',
              m.path, sel_e[0].lineno)


def r5(ctx: Ctx, prog: sf.SqlProgram) -> None:
    m = pf.load('batch/batch/front_end/front_end.py')
    bad = []
    for e in sf.embedded_in(m):
        if e.sql_text is None or 'user_inst_coll_resources' not in e.sql_text:
            continue
        for st in e.stmts():
            if any(t.lower() == 'user_inst_coll_resources' for t, _ in sf.written_tables(st)):
                bad.append(e)
    ctx.check(not bad, 'R5', f'{m.rel}::front end never writes user_inst_coll_resources', f'the front end writes the scheduler counters at {[e.lineno for e in bad]}: staged jobs would count before commit', m.path, bad[0].lineno if bad else 0)
    r = prog.routine('commit_batch_update')
    hits = [(st, g) for st, g in sf.guarded_statements(r.ast.body) if st.kind == 'insert' and st.table.lower() == 'user_inst_coll_resources']
    cvar = _committed_var(r)
    ctx.need(cvar is not None and len(hits) >= 1, 'commit_batch_update: read of batch_updates.committed / INSERT INTO user_inst_coll_resources not found')
    ok = len(hits) == 1 and _not_yet_committed(hits[0][1], cvar) is True
    ctx.check(ok, 'R5', 'sql::commit_batch_update::staged counts enter at commit', 'staged ready counts are not added exactly once in the not-yet-committed branch of commit_batch_update', r.file, r.line)
    # every read of the staging table inside commit_batch_update is restricted to (in_batch_id, in_update_id): staged rows of other (open) updates must not be counted
    k = 0
    for st in r.ast.walk():
        if st.kind != 'select' or st.frm is None:
            continue
        tabs = [t for t in sf.from_tables(st.frm) if t.kind == 'table']
        if not any(t.name.lower() == 'job_groups_inst_coll_staging' for t in tabs):
            continue
        k += 1
        conj = list(sf.conjuncts(st.where))
        for j in (st.frm.joins if st.frm.kind == 'from' else []):
            if j.jtype == 'INNER':
                conj += sf.conjuncts(j.on)
        w = None
        for c in conj:
            w = c if w is None else N('bin', op='AND', left=w, right=c)
        okk = sr.has_eq(w, 'update_id', 'in_update_id') and sr.has_eq(w, 'batch_id', 'in_batch_id')
        if not okk:
            # evidence only when the restriction is plainly absent: a conjunct that mentions in_update_id / in_batch_id in another form (IN, <=>, a sub-select) is not judged
            other = [c for c in conj if any(n.kind == 'col' and n.parts[-1].lower() in ('in_update_id', 'in_batch_id') for n in c.walk()) and not (c.kind == 'bin' and c.op == '=')]
            ctx.need(not other, f'commit_batch_update: the staging read is restricted by `{text(other[0])[:60] if other else ""}`: not recognised')
        role = 'INTO ' + ', '.join(text(v) for v in st.into) if st.into else ('GROUP BY ' + ', '.join((g.parts[-1].lower() if g.kind == 'col' else text(g)) for g in (getattr(st, 'group', None) or [])))[:60]
        ctx.check(okk, 'R5', f'sql::commit_batch_update::staging read {role}', f'`{text(st)[:160]}` reads job_groups_inst_coll_staging without `batch_id = in_batch_id AND update_id = in_update_id`: '
                  'the staged jobs of other updates of the batch - created but not committed - are added to n_jobs / the scheduler counters by this commit', r.file, r.line_of(st))
    ctx.need(k >= 3, f'commit_batch_update: only {k} reads of the staging table found')


FE = 'batch/batch/front_end/front_end.py'


def r6(ctx: Ctx) -> None:
    from engines import c41init as ci
    from engines import inline
    m = pf.load(FE)
    m.func('_create_jobs')
    cons = f'{FE}::_create_jobs::INSERT INTO jobs'
    # ---- the only INSERT INTO jobs of the service, its argument list and the positions of `state` / `update_id` -----------------------------
    sites = []
    rels = [FE] + ([r for r in pf.walk_py(['batch/batch']) if r != FE] if ctx.tier == 'thorough' else [])
    for rel in rels:
        try:
            mod = m if rel == FE else pf.load(rel)
        except (AnalysisError, OSError):
            continue
        if 'jobs' not in mod.src:
            continue
        for e in sf.embedded_in(mod):
            if e.sql_text is None:
                continue
            for st in e.stmts():
                if st.kind == 'insert' and isinstance(st.table, str) and st.table.lower() == 'jobs':
                    sites.append((rel, e, st))
    ctx.need(sites, f'{FE}: INSERT INTO jobs not found')
    for rel, e, st in sites:
        if not (rel == FE and e.qual.startswith('_create_jobs')):
            raise AnalysisError(f'{rel}::{e.qual}: another INSERT INTO jobs; the initial state it gives to jobs of an uncommitted update is not analysed')
    ctx.need(len(sites) == 1, f'{FE}::_create_jobs: {len(sites)} INSERT INTO jobs statements')
    _rel, e, st = sites[0]
    ctx.need(e.method in ('execute_many', 'executemany') and len(e.call.args) >= 2 and isinstance(e.call.args[1], ast.Name), f'{cons}: rows are not passed as a named list to execute_many')
    lst = e.call.args[1].id
    ins, dup, _uv = sr.insert_colmap(st)
    ctx.need('state' in ins and 'update_id' in ins and not dup and not st.ignore and not st.replace, f'{cons}: columns state / update_id not bound, or not a plain INSERT')
    params = sr.params_in_order(st)

    def pos(col: str) -> Optional[int]:
        ex = ins[col]
        return [i for i, p in enumerate(params) if p is ex][0] if ex.kind == 'param' else None
    if ins['state'].kind == 'lit':
        ctx.check(ins['state'].value == 'Pending', 'R6', cons + '::later updates start Pending', f'every job is inserted with the literal state {ins["state"].value!r}: a job of a later, uncommitted update '
                  'that sits in a running job group is visible to the scheduler', m.path, e.lineno)
        return
    si, ui = pos('state'), pos('update_id')
    ctx.need(si is not None and ui is not None, f'{cons}: state / update_id are not parameters of the statement')
    # ---- symbolic flow through the per-job loop ------------------------------------------------------------------------------------------------
    m2, il = inline.inline_functions(ci.slice_module(m, '_create_jobs'), '_create_jobs')
    fn = m2.func('_create_jobs')
    loops = [n for n in fn.body if isinstance(n, (ast.For, ast.AsyncFor)) and any(isinstance(c, ast.Call) and isinstance(c.func, ast.Attribute) and c.func.attr in ('append', 'extend', 'insert')
                                                                                  and isinstance(c.func.value, ast.Name) and c.func.value.id == lst for c in ast.walk(n))]
    others = [c for c in ast.walk(fn) if isinstance(c, ast.Call) and isinstance(c.func, ast.Attribute) and c.func.attr in ('append', 'extend', 'insert') and isinstance(c.func.value, ast.Name)
              and c.func.value.id == lst and not any(c is x for lp in loops for x in ast.walk(lp))]
    ctx.need(len(loops) == 1 and not others and not loops[0].orelse, f'{FE}::_create_jobs: the per-job loop that fills `{lst}` was not recognised')
    stores = sum(1 for n in ast.walk(fn) if isinstance(n, ast.Name) and n.id == lst and isinstance(n.ctx, (ast.Store, ast.Del)))
    ctx.need(stores == 1, f'{FE}::_create_jobs: `{lst}` is rebound')
    helpers = {f.name: f for f in m.tree.body if isinstance(f, ast.FunctionDef)}
    flow = ci.SymFlow(helpers, {lst})
    flow.run(loops[0].body)
    ctx.need(flow.sinks and not flow.unanalysed, f'{FE}::_create_jobs: rows of `{lst}`: ' + ('; '.join(flow.unanalysed) or 'no append((...)) found on a path that is followed'))
    ctx.unit('helpers inlined into _create_jobs (statement level)', len(il.inlined))
    ctx.unit('helpers substituted at expression level', len(set(flow.expanded)))
    fparams = {a.arg for a in fn.args.args + fn.args.kwonlyargs}
    for sk in flow.sinks:
        ctx.need(len(sk.elts) == len(params), f'{FE}::_create_jobs: the tuple appended to `{lst}` has {len(sk.elts)} elements, the statement {len(params)} parameters')
        upd = sk.elts[ui]
        ok_upd = isinstance(upd, ast.Name) and upd.id.endswith('#0') and upd.id[:-2] in fparams and \
            not any(isinstance(n, ast.Name) and n.id == upd.id[:-2] and isinstance(n.ctx, (ast.Store, ast.Del)) for n in ast.walk(fn))
        ctx.need(ok_upd, f'{FE}::_create_jobs: the update id stored with the job (`{ci.show(upd)}`) is not a plain parameter of _create_jobs')
        verdict, a, b = (ci.decide_slot(sk.elts[si], sk.pc, upd.id, 'Pending') + (None,))[:3]
        if verdict == 'bad':
            # the rule is necessary because the driver reaches jobs through running job groups only (R3); a driver that looked at batch_updates.committed would not need it
            for rel in ('batch/batch/driver/instance_collection/pool.py', 'batch/batch/driver/instance_collection/job_private.py', 'batch/batch/driver/canceller.py'):
                for e2 in sf.embedded_in(pf.load(rel)):
                    if e2.sql_text is not None and any(n.kind == 'col' and n.parts[-1].lower() == 'committed' for st2 in e2.stmts() for n in st2.walk()):
                        raise AnalysisError(f'{FE}::_create_jobs: a later-update job may be inserted {b} ([{a}]) but {rel}::{e2.qual} looks at a `committed` column: whether the driver can still see the job is not decided')
        if verdict == 'unknown':
            raise AnalysisError(f'{FE}::_create_jobs: initial state `{ci.show(sk.elts[si])[:200]}` of the jobs of a later update not decided: {a}')
        ctx.check(verdict == 'ok', 'R6', cons + '::later updates start Pending',
                  f'a job of an update that is not the first is inserted with state {", ".join(b or [])} when [{a}] (stored state: `{ci.show(sk.elts[si])[:160]}`). Jobs of update 1 are shielded by their job '
                  'groups (created complete, flipped to running by the commit); a later update can put jobs into a job group that is ALREADY running (absolute_job_group_id 0 of a running batch), and the '
                  'scheduler selects Ready jobs of running groups without looking at batch_updates.committed. History: update 1 committed and running; updates/create opens update 2; its bunch '
                  'with such a job is inserted; before (or without) the commit the driver schedules it and the autoscaler counts its cores', m.path, sk.line, detail=a if verdict == 'ok' else None)


def run(ctx: Ctx) -> None:
    ctx.explanation = 'Enumeration of every statement through which a job of an uncommitted update could become runnable, counted or complete.'
    ctx.rule('R1', 'statements that can take a job out of Pending are the commit procedure (confined to the rows of the update being committed) or restricted to committed updates', 3)
    ctx.rule('R2', 'n_jobs grows and state becomes running only in commit_batch_update; complete only under completed == n_jobs; new rows start complete with 0 jobs', 9)
    ctx.rule('R3', 'driver selections reach jobs only through job groups in state running', 14)
    ctx.rule('R4', 'cancellation moves only committed updates\' counts; a non-root group must be committed to be cancelled', 3)
    ctx.rule('R5', 'staged counts enter the scheduler counters only at commit, and only those of the update being committed', 5)
    ctx.rule('R6', 'jobs of a later update (update_id != 1) are inserted Pending on every accepted path (decision tree of the stored state enumerated over update-id classes and condition atoms)', 1)
    from engines import c08ids as _ci
    ctx.unit('SQL texts resolved through module-level constants', _ci.resolve_module_sql(pf.load('batch/batch/front_end/front_end.py')))
    prog = sf.load_program()
    r1(ctx, prog)
    r2(ctx, prog)
    r3(ctx)
    r4(ctx, prog)
    r5(ctx, prog)
    r6(ctx)
