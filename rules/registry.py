"""Not-applicable list and engine list (claimed properties carry their own META in rules/cXX.py; see tools/gen_manifest.py)."""

NOT_APPLICABLE = {}  # every property is claimed (C11, C22, C37, C39 as PARTIAL claims: see their META / DESIGN.md sections for what is NOT decided)

# Properties whose rule module has been reviewed and passes on the unchanged tree; only these are claimed in MANIFEST.json.
READY = ['C01', 'C02', 'C03', 'C04', 'C05', 'C06', 'C07', 'C08', 'C09', 'C10', 'C11', 'C12', 'C13', 'C14', 'C15', 'C16', 'C17', 'C18', 'C19', 'C20', 'C21', 'C22', 'C23', 'C24', 'C25', 'C26', 'C27', 'C28', 'C29', 'C30', 'C31', 'C32', 'C33', 'C34', 'C35', 'C36', 'C37', 'C38', 'C39', 'C40', 'C41']

ENGINES = {
    'source_commits': [],
    'engines': [
        {'name': 'pyfacts', 'path': 'engines/pyfacts.py', 'serves_properties': [], 'kind_free_text': 'Python AST loader, resolver, statement CFG, dominance/must-pass-through, def-use'},
        {'name': 'absdom', 'path': 'engines/absdom.py', 'serves_properties': ['C21'], 'kind_free_text': 'exhaustive finite-domain evaluators over extracted syntax trees (truth tables, intervals)'},
    ],
}
