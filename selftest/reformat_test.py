"""Robustness self-test: every check must stay silent (exit 0) on behaviour-preserving reformatting of all analysed sources
(Python round-tripped through ast.unparse - comments dropped, layout/quotes/parentheses changed; SQL de-indented)."""
import ast, os, sys, subprocess, shutil, tempfile
sys.path.insert(0,'/verif')
REPO='/repo'
tmp=tempfile.mkdtemp(prefix='verif_refmt_')
n=0
for d in ['batch/batch','gear/gear','auth/auth','ci/ci','web_common','hail/python/hailtop','hail/python/hail']:
    for root,dirs,files in os.walk(os.path.join(REPO,d)):
        for f in files:
            if f.endswith('.py'):
                p=os.path.join(root,f); rel=os.path.relpath(p,REPO)
                try:
                    src=open(p,encoding='utf-8').read()
                    new=ast.unparse(ast.parse(src))+'\n'
                except Exception as e:
                    continue
                dst=os.path.join(tmp,'tree',rel); os.makedirs(os.path.dirname(dst),exist_ok=True)
                open(dst,'w',encoding='utf-8').write(new); n+=1
print('reformatted',n,'files into',tmp)
import json
pids=[c['property_id'] for c in json.load(open('/verif/MANIFEST.json'))['checks']]
env=dict(os.environ,VERIF_OVERLAY=tmp)
for pid in pids:
    p=subprocess.run(['/venv/bin/python','/verif/check.py',pid],capture_output=True,text=True,env=env,cwd='/verif')
    lines=[l for l in p.stdout.splitlines() if l.strip().startswith(('FAIL','ANALYSIS-ERROR'))]
    print(pid,'exit',p.returncode, ('; '.join(l.strip()[:200] for l in lines[:2]) if p.returncode else ''))
shutil.rmtree(tmp,ignore_errors=True)

# --- SQL: strip indentation and trailing blanks of every migration (behaviour preserving) ---------------------------
import re
tmp=tempfile.mkdtemp(prefix='verif_refmt_sql_')
k=0
for f in os.listdir(os.path.join(REPO,'batch/sql')):
    if f.endswith('.sql'):
        src=open(os.path.join(REPO,'batch/sql',f),encoding='utf-8').read()
        new='\n'.join(l.strip() for l in src.splitlines())+'\n'
        dst=os.path.join(tmp,'tree','batch/sql',f); os.makedirs(os.path.dirname(dst),exist_ok=True)
        open(dst,'w',encoding='utf-8').write(new); k+=1
print('de-indented',k,'sql files')
env=dict(os.environ,VERIF_OVERLAY=tmp)
for pid in pids:
    p=subprocess.run(['/venv/bin/python','/verif/check.py',pid],capture_output=True,text=True,env=env,cwd='/verif')
    if p.returncode:
        lines=[l for l in p.stdout.splitlines() if l.strip().startswith(('FAIL','ANALYSIS-ERROR'))]
        print(pid,'exit',p.returncode,'; '.join(l.strip()[:200] for l in lines[:2]))
shutil.rmtree(tmp,ignore_errors=True)
print('sql reformat done')
