#!/venv/bin/python
"""Both-ways self-test of the checkers.

For every mutant in selftest/mutants/<pid>.json:
   {"name": ..., "file": <repo-relative path>, "old": <exact text, must occur exactly once>, "new": <replacement>,
    "expect_rule": "R3" (rule id that must be named in a FAIL line), "note": ...}
a mutated copy of that single file is written to a scratch overlay OUTSIDE /repo and /verif,
the property's check is run with VERIF_OVERLAY pointing at it, and the check must exit 1 with a
FAIL line naming the expected rule.  The clean tree must exit 0.  Scratch directories are removed.

usage: selftest/run.py [Cxx ...] [-j N]
exit 0 = every mutant detected and clean tree silent; 1 otherwise.
"""
import ast
import concurrent.futures
import json
import os
import shutil
import subprocess
import sys
import tempfile

HERE = os.path.dirname(os.path.abspath(__file__))
VERIF = os.path.dirname(HERE)
REPO = os.environ.get('VERIF_REPO', '/repo')
PY = '/venv/bin/python'


def run_check(pid, overlay=None, tier='quick'):
    env = dict(os.environ)
    if overlay:
        env['VERIF_OVERLAY'] = overlay
    p = subprocess.run([PY, os.path.join(VERIF, 'check.py'), pid, '--tier', tier], capture_output=True, text=True, env=env, cwd=VERIF)
    return p.returncode, p.stdout + p.stderr


def one_mutant(pid, mut):
    rel = mut['file']
    path = os.path.join(REPO, rel)
    if not os.path.exists(path):
        return ('STALE', f'{rel} missing')
    src = open(path, encoding='utf-8').read()
    n = src.count(mut['old'])
    if n != 1:
        return ('STALE', f'old text occurs {n} times in {rel}')
    new_src = src.replace(mut['old'], mut['new'])
    for e in mut.get('also_edits', []):  # further replacements in the same file
        if new_src.count(e['old']) != 1:
            return ('STALE', f"also_edits: old text occurs {new_src.count(e['old'])} times in {rel}")
        new_src = new_src.replace(e['old'], e['new'])
    if rel.endswith('.py'):
        try:
            ast.parse(new_src)
        except SyntaxError as e:
            return ('STALE', f'mutant does not compile: {e}')
    tmp = tempfile.mkdtemp(prefix=f'verif_mut_{pid}_')
    try:
        dst = os.path.join(tmp, 'tree', rel)
        os.makedirs(os.path.dirname(dst), exist_ok=True)
        with open(dst, 'w', encoding='utf-8') as fh:
            fh.write(new_src)
        for extra in mut.get('also', []):  # additional new files (e.g. a new migration script)
            d2 = os.path.join(tmp, 'tree', extra['file'])
            os.makedirs(os.path.dirname(d2), exist_ok=True)
            with open(d2, 'w', encoding='utf-8') as fh:
                fh.write(extra['content'])
        rc, out = run_check(pid, tmp)
        want = mut.get('expect_rule')
        if mut.get('expect') == 'pass':
            # behaviour-preserving refactor the check is expected to see through: must decide "holds"
            if rc != 0 or 'VIOLATION property=' in out:
                return ('FALSE-ALARM' if rc == 1 else 'DECLINED', out[-1500:])
            return ('CAUGHT', '')
        if mut.get('expect') == 'silent':
            # behaviour-preserving refactor: the check may pass or decline (exit 2) but must never alarm
            if rc == 1 or 'VIOLATION property=' in out:
                return ('FALSE-ALARM', out[-1500:])
            return ('CAUGHT', '')
        if rc != 1:
            return ('MISSED', f'exit {rc}\n' + out[-1500:])
        if 'VIOLATION property=' + pid not in out:
            return ('MISSED', 'no VIOLATION line\n' + out[-800:])
        if want and not any(line.strip().startswith('FAIL ' + want + ' ') for line in out.splitlines()):
            return ('WRONG-RULE', f'expected a FAIL line for {want}\n' + '\n'.join(l for l in out.splitlines() if 'FAIL' in l))
        return ('CAUGHT', '')
    finally:
        shutil.rmtree(tmp, ignore_errors=True)


def main(argv):
    jobs = 16
    if '-j' in argv:
        i = argv.index('-j')
        jobs = int(argv[i + 1])
        argv = argv[:i] + argv[i + 2:]
    mdir = os.path.join(HERE, 'mutants')
    pids = [a.upper() for a in argv[1:]] or sorted(f[:-5] for f in os.listdir(mdir) if f.endswith('.json'))
    tasks = []
    for pid in pids:
        p = os.path.join(mdir, pid + '.json')
        if not os.path.exists(p):
            print(f'{pid}: no mutants file')
            continue
        for mut in json.load(open(p)):
            tasks.append((pid, mut))
    bad = 0
    with concurrent.futures.ThreadPoolExecutor(jobs) as ex:
        clean = {pid: ex.submit(run_check, pid, tempfile.mkdtemp(prefix=f'verif_clean_{pid}_')) for pid in pids}
        futs = [(pid, mut, ex.submit(one_mutant, pid, mut)) for pid, mut in tasks]
        for pid, fut in clean.items():
            rc, out = fut.result()
            for d in os.listdir(tempfile.gettempdir()):
                if d.startswith(f'verif_clean_{pid}_'):
                    shutil.rmtree(os.path.join(tempfile.gettempdir(), d), ignore_errors=True)
            if rc != 0:
                bad += 1
                print(f'{pid} CLEAN TREE NOT SILENT (exit {rc})\n{out[-1500:]}')
            else:
                print(f'{pid} clean tree: exit 0')
        for pid, mut, fut in futs:
            status, msg = fut.result()
            if status == 'CAUGHT' and mut.get('expect') in ('silent', 'pass'):
                status = 'SILENT-OK'
            print(f'{pid} {mut["name"]}: {status}' + (f' (expects {mut.get("expect_rule")})' if status == 'CAUGHT' else ''))
            if status == 'SILENT-OK':
                continue
            if status != 'CAUGHT':
                bad += 1
                print('    ' + msg.replace('\n', '\n    '))
    print(f'selftest: {len(tasks)} mutants, {bad} problem(s)')
    return 1 if bad else 0


if __name__ == '__main__':
    sys.exit(main(sys.argv))
