#!/venv/bin/python
"""Regenerate MANIFEST.json from rules/registry.py and properties.jsonl."""
import json
import os
import sys

VERIF = os.path.dirname(os.path.dirname(os.path.abspath(__file__)))
sys.path.insert(0, VERIF)
import importlib  # noqa: E402
from rules.registry import NOT_APPLICABLE, ENGINES, READY  # noqa: E402

CLAIMED = {}
for f in sorted(os.listdir(os.path.join(VERIF, 'rules'))):
    if f.startswith('c') and f.endswith('.py') and f[1:-3].isdigit():
        mod = importlib.import_module('rules.' + f[:-3])
        if getattr(mod, 'META', None) and f[:-3].upper() in READY:
            CLAIMED[f[:-3].upper()] = mod.META
for pid in CLAIMED:
    assert pid not in NOT_APPLICABLE, pid

import ast as _ast  # noqa: E402


def engines_list():
    out = []
    edir = os.path.join(VERIF, 'engines')
    uses = {}
    for f in sorted(os.listdir(os.path.join(VERIF, 'rules'))):
        if f.startswith('c') and f.endswith('.py') and f[1:-3].isdigit() and f[:-3].upper() in READY:
            src = open(os.path.join(VERIF, 'rules', f)).read()
            for e in os.listdir(edir):
                if e.endswith('.py') and (('engines import' in src and e[:-3] in src) or f'engines.{e[:-3]}' in src):
                    uses.setdefault(e[:-3], []).append(f[:-3].upper())
    for e in sorted(os.listdir(edir)):
        if not e.endswith('.py') or e == '__init__.py':
            continue
        doc = _ast.get_docstring(_ast.parse(open(os.path.join(edir, e)).read())) or ''
        out.append({'name': e[:-3], 'path': f'engines/{e}', 'serves_properties': sorted(uses.get(e[:-3], [])),
                    'kind_free_text': doc.strip().split('\n\n')[0].replace('\n', ' ')[:300]})
    return out


props = [json.loads(l) for l in open(os.path.join(VERIF, 'properties.jsonl'))]
ids = [p['id'] for p in props]
checks = []
na = []
for pid in ids:
    if pid in CLAIMED:
        c = CLAIMED[pid]
        checks.append({
            'property_id': pid,
            'quick_cmd': f'/venv/bin/python check.py {pid} --tier quick',
            'thorough_cmd': f'/venv/bin/python check.py {pid} --tier thorough',
            'evidence_file': f'/verif/evidence/{pid}.json',
            'replay_cmd_template': f'/venv/bin/python check.py {pid} --tier quick  # violations are re-derived from source; details in {{path}}',
            'engine': c.get('engine', 'static-rules'),
            'level_claimed': {'category': c['category'], 'text': c['text'], 'design_ref': c.get('design_ref', 'DESIGN.md')},
            'level_note': c['note'],
            'technique': c['technique'],
        })
    elif pid in NOT_APPLICABLE:
        na.append({'property_id': pid, 'reason': NOT_APPLICABLE[pid]})
    else:
        na.append({'property_id': pid, 'reason': 'not claimed yet: the static rule for this property has not been built (see DESIGN.md for the plan)'})
manifest = {
    'version': 1,
    'setup_cmd': '/venv/bin/python -c "import ast, json, re, unicodedata; print(\'setup ok: stdlib only\')"',
    'hooks': {
        'guard': 'HAIL_VERIF',
        'enable': 'none needed: the checks are static and read /repo sources directly; no instrumentation is compiled in',
        'baseline_off_cmd': 'cd /repo && /venv/bin/python -m pytest -ra -q -p no:cacheprovider --timeout=900 --continue-on-collection-errors',
        'source_commits': ENGINES.get('source_commits', []),
        'add_only': True,
    },
    'engines': engines_list(),
    'checks': checks,
    'not_applicable': na,
    'notes': 'All checks are static analyses over parsed Python/SQL/Scala source of /repo (never imported or executed). Exit 0 = rules hold '
             '(KNOWN-FINDING lines for defects listed in known_findings.json), 1 = VIOLATION, 2 = ANALYSIS-ERROR (anchor vanished or idiom unrecognised).',
}
with open(os.path.join(VERIF, 'MANIFEST.json'), 'w') as fh:
    json.dump(manifest, fh, indent=1)
    fh.write('\n')
print(f'MANIFEST.json: {len(checks)} checks, {len(na)} not_applicable')
