import json,os,sys
g=sys.argv[1]; props=sys.argv[2].split(','); own=sys.argv[3]; extra=sys.argv[4] if len(sys.argv)>4 else ''
ex=[]
for r in sorted(os.listdir('/verif/refactors')):
    m=json.load(open(f'/verif/refactors/{r}/meta.json'))
    fa=[p for p in m.get('false_alarms',[]) if p in props]; de=[p for p in m.get('declined',[]) if p in props]
    if fa or de:
        outs=[l for l in m.get('checks_output',[]) if any(l.startswith(f'[{p}]') for p in fa+de)]
        ex.append(f"{r}: " + (f"FALSE ALARM of {','.join(fa)}" if fa else '') + ('; ' if fa and de else '') + (f"declined by {','.join(de)}" if de else '') + (f"  -- {outs[0][:230]}" if outs else ''))
t=f"""Read /verif/tools/falsealarm_brief.md first and follow it exactly (it refers to /verif/tools/strengthen_brief.md, which you read too).

Your properties: {', '.join(props)}.
Files you own and may edit: {own}; you may add NEW engine files named after your property.  Shared engines (engines/common.py, pyfacts.py, inline.py, asyncfacts.py, absdom.py, guards.py, linform.py, strparts.py, sqlast.py, sqlfront.py, sqleval.py, sqlrules.py, relang.py, wiresig.py, exprir.py, scalalite*.py, callsites.py) must NOT be edited unless listed above; if one lacks a normalisation you need, implement it in your own engine file or rule module and tell me in the report.
{extra}

Refactor examples (under /verif/refactors/<id>/: patch.diff, notes.md, check.py, meta.json) on which YOUR checks alarm falsely or decline today (see the notes.md of each for what was refactored):
  {(chr(10)+'  ').join(ex)}
Priority: first remove every FALSE ALARM (exit 1) - soundly, by seeing through the refactor or by declining when the rule has no positive evidence -, then audit the rest of your rule modules for the same mistake, then turn declines into passes where that is cheap and sound.

Scratch only under /tmp/{g}_work (remove when done).  Do not run git commit/add/checkout/stash in /verif; never modify /repo (overlay mechanism).
"""
open(f'/tmp/tasks/{g}.txt','w').write(t)
print(g,len(ex),'examples')
