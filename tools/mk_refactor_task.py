import json, sys, subprocess, os
props={json.loads(l)['id']:json.loads(l) for l in open('/verif/properties.jsonl')}
name=sys.argv[1]; ps=sys.argv[2:]
wt=f'/tmp/refac/wt_{name}'; out=f'/tmp/refac/out_{name}'
os.makedirs(out,exist_ok=True)
if not os.path.exists(wt):
    subprocess.run(['git','-C','/repo','worktree','add','--detach',wt,'HEAD','-q'],check=True)
ptxt=''
for p in ps:
    d=props[p]
    ptxt+=f"""
  id: {d['id']}
  title: {d['title']}
  statement: {d['statement']}
  anchored in: {json.dumps(d['anchors'])}
"""
t=f"""You are a maintainer doing clean-up work on the repository populationgenomics/hail (a Python genomics query front end that builds typed IR for an in-repo Scala/Spark engine, plus a Python batch job scheduler service with MySQL stored procedures under batch/sql).  You work ONLY in the scratch git worktree {wt} and write your results ONLY to {out}/.  Do not read or write anything under /verif or /repo, and do not look at other directories under /tmp.  The sandbox has no network; /venv/bin/python (3.12) has what is installable offline (MySQL, Spark/JVM, cloud services are NOT available; only auth/test/test_auth_utils.py runs as a test suite).

The code you touch implements these properties, which MUST KEEP HOLDING after your changes:
{ptxt}
Task: for EACH property above produce THREE different BEHAVIOUR-PRESERVING refactors (call them R1, R2, R3) of the code its "anchored in" mechanisms live in — the kind of change that shows up in real pull requests and changes no observable behaviour for any input, schedule or history:
  extract a helper function / method (or inline one), introduce or remove a local variable, rename locals / private helpers, reorder statements that are independent, turn a loop into a comprehension or back, `if/else` <-> early return / guard clause, `a if c else b` <-> if-statement, merge or split conditions (De Morgan, nested ifs <-> `and`), replace an idiom by an equivalent one (`len(x) == 0` <-> `not x` where x is a list, `dict(a=1)` <-> `{{'a': 1}}`, f-string <-> format/concatenation, `x += 1` <-> `x = x + 1`, `for i in range(len(xs))` <-> `enumerate`, `.get(k) is None` <-> `k not in d` where values are never None), move a constant to module level, add type annotations / logging / comments / assertions that cannot fail, change the order of keyword arguments, wrap a body in a `try/finally` that only logs, split a long SQL string constant into concatenated pieces, re-indent / re-alias SQL (table aliases, `INNER JOIN` <-> `JOIN`, `a = b` <-> `b = a`, `IN ('x')` <-> `= 'x'`, conjunct order in WHERE), re-create a stored routine unchanged-in-meaning in a NEW migration file registered in build.yaml (plus estimated-current.sql) with such cosmetic SQL changes, for Scala: rename vals, reorder independent vals, `if/else` <-> `match`.
Make each refactor NON-TRIVIAL (touch the central functions of the mechanism, 10-60 changed lines, combine two or three of the techniques above) but be absolutely sure it preserves behaviour — when in doubt, leave it out.  The three refactors of one property must differ in technique and location.

For each refactor write into {out}/<property id>-R<k>/ :
  * patch.diff — `git diff` against HEAD for that refactor alone (independent of the others: `git checkout -- . && git clean -fdq` in between; new files via `git add -N` before diffing); must apply with `git apply` to a clean checkout of HEAD
  * notes.md   — what was changed, and the argument why behaviour is unchanged (2-10 lines)
  * check.py   — OPTIONAL: a small program `check.py <worktree>` (run with /venv/bin/python) exercising the real refactored code offline (import by path, stub missing third-party modules, ast-extract functions) on a handful of inputs/histories, exit 0 if outputs are as expected; used by me to confirm equivalence before and after.
Verify: py_compile passes on changed Python files; `cd <worktree> && /venv/bin/python -m pytest -q -p no:cacheprovider auth/test/test_auth_utils.py` -> 63 passed with each patch; check.py (if any) exits 0 both without and with the patch.  Leave the worktree clean at the end.  Final message: one line per refactor.
"""
open(out+'/TASK.txt','w').write(t)
print(name,'ok')
