import json, sys, subprocess, os
props={json.loads(l)['id']:json.loads(l) for l in open('/verif/properties.jsonl')}
rnd=sys.argv[1]
for p in sys.argv[2:]:
    d=props[p]
    wt=f'/tmp/seed{rnd}/wt_{p}'; out=f'/tmp/seed{rnd}/out_{p}'
    os.makedirs(out,exist_ok=True)
    if not os.path.exists(wt):
        subprocess.run(['git','-C','/repo','worktree','add','--detach',wt,'HEAD','-q'],check=True)
    t=f"""You are an independent reviewer testing how robust a software property is against realistic regressions.  You work ONLY in the scratch git worktree {wt} (a checkout of the repository populationgenomics/hail: a Python genomics query front end that builds typed IR for an in-repo Scala/Spark engine, plus a Python batch job scheduler service with MySQL stored procedures under batch/sql) and write your results ONLY to {out}/.  Do not read or write anything under /verif or /repo, and do not look at other directories under /tmp.  The sandbox has no network; /venv/bin/python (3.12) has the repository's Python dependencies that are installable offline (many third-party services, MySQL, Spark/JVM are NOT available: nothing but auth/test/test_auth_utils.py runs as a test suite).

The property (this text is all you get):

  id: {d['id']}
  title: {d['title']}
  statement: {d['statement']}
  quantifier: {d['quantifier']['text']}
  why tests cannot settle it: {d['why_tests_cant']}
  anchored in: {json.dumps(d['anchors'])}

Task: produce TWO different, independent changes (call them A and B) to the repository that each BREAK this property while the code still compiles (py_compile for Python; SQL must remain syntactically valid MySQL; Scala must remain syntactically valid) and the existing test suite still passes (`cd <worktree> && /venv/bin/python -m pytest -q -p no:cacheprovider auth/test/test_auth_utils.py` -> 63 passed).  The changes must look like things a maintainer could plausibly commit (a refactor, an optimisation, a "simplification", a feature tweak, a bug fix that over-reaches), NOT sabotage, and each must need something SPECIFIC to manifest — a particular interleaving, a crash or fault at a particular point, a multi-step sequence of operations, an unusual input, or two cooperating sites that each look fine alone — not something ordinary use would expose at once.  A and B must attack different clauses or mechanisms of the property, and should differ from the obvious one-token mutations (dropping a guard wholesale, flipping a comparison) — prefer changes where the broken behaviour emerges from an interaction (a helper extracted with slightly different semantics, a cache added, an early return on a fast path, a reordered pair of statements, a new code path that forgets one duty of the old one, a data-structure change that loses an ordering/uniqueness guarantee, a SQL change delivered as a NEW migration file registered in the migration list of build.yaml plus the matching edit of batch/sql/estimated-current.sql).

For each change X in {{A, B}} write into {out}/X/:
  * patch.diff  — `git diff` of the worktree against HEAD for that change alone (must apply with `git apply` to a clean checkout of HEAD; make A and B independent: `git checkout -- . && git clean -fdq` between them so that each diff is against HEAD; new files included via `git add -N` before diffing)
  * demo.py     — a self-contained program `demo.py <worktree path>` (run with /venv/bin/python, stdlib + what /venv has) that exits 0 on the unchanged tree (property holds on the scenario) and exits 1 with the change applied, printing what was violated.  It must exercise the REAL changed code from the given worktree path wherever that is possible offline (import by path with importlib, stub unavailable third-party modules, ast-extract and exec single functions); parts that cannot run offline (MySQL procedures, the JVM engine, cloud services) may be modelled by a small faithful Python model that follows the source literally — say clearly in the docstring what is real and what is modelled.  It must not depend on timing luck: drive interleavings deterministically.
  * notes.md    — the clause that breaks, the mechanism, what exactly is needed for it to manifest, why the pinned tests and ordinary use do not notice, and why a reviewer might accept the change.
Verify yourself before finishing: with the worktree clean, `demo.py` exits 0; with patch X applied, py_compile passes on the changed files, the 63 pinned tests pass, and `demo.py` exits 1.  Leave the worktree clean (`git checkout -- . && git clean -fdq`) at the end.  Final message: two short paragraphs (A, B) saying what each change is and what it needs to manifest.
"""
    open(out+'/TASK.txt','w').write(t)
    print(p,'ok')
