#!/venv/bin/python
"""Confirm a behaviour-PRESERVING refactor written by an independent sub-agent and run every registered quick check against it.

usage: tools/refactor_intake.py <candidate dir (patch.diff, notes.md, optional check.py)> <id, e.g. C16-R2> <property id>

A refactor keeps the property true, so the only acceptable verdicts are exit 0 (holds) and - second best - exit 2 (declined: shape
not recognised).  Exit 1 / a VIOLATION line is a FALSE ALARM and must be fixed in the rule.  Steps (scratch worktree under /tmp,
removed afterwards; /repo itself is never touched): the patch applies to HEAD, changed Python compiles, the pinned suite passes,
check.py (if present) exits 0 without and with the patch; then the checks run against an overlay (tools/seeded_reeval.build_overlay
logic).  Result filed under /verif/refactors/<id>/ (patch.diff, notes.md, check.py, meta.json).
"""
import concurrent.futures
import json
import os
import re
import shutil
import subprocess
import sys
import tempfile

VERIF = os.path.dirname(os.path.dirname(os.path.abspath(__file__)))
REPO = '/repo'
PY = '/venv/bin/python'
RD = os.path.join(VERIF, 'refactors')


def sh(*a, **kw):
    return subprocess.run(a, capture_output=True, text=True, **kw)


def build_overlay(patch: str) -> str:
    text = open(patch).read()
    files = sorted(set(re.findall(r'^(?:---|\+\+\+) [ab]/(.+)$', text, re.M)))
    tmp = tempfile.mkdtemp(prefix='verif_refac_')
    tree = os.path.join(tmp, 'tree')
    os.makedirs(tree)
    for f in files:
        src = os.path.join(REPO, f)
        if os.path.exists(src):
            dst = os.path.join(tree, f)
            os.makedirs(os.path.dirname(dst), exist_ok=True)
            shutil.copy(src, dst)
    r = sh('git', 'apply', '--unsafe-paths', '--directory', tree, patch, cwd='/')
    if r.returncode != 0:
        r = sh('git', 'apply', patch, cwd=tree)
    if r.returncode != 0:
        shutil.rmtree(tmp, ignore_errors=True)
        raise RuntimeError(f'patch does not apply to the overlay: {r.stderr[:300]}')
    return tmp


def run_one(pid: str, overlay: str):
    out = tempfile.mkdtemp(prefix='verif_refac_out_')
    ov = os.path.join(out, 'ov')
    os.makedirs(ov)
    os.symlink(os.path.join(overlay, 'tree'), os.path.join(ov, 'tree'))
    p = sh(PY, os.path.join(VERIF, 'check.py'), pid, cwd=VERIF, env=dict(os.environ, VERIF_OVERLAY=ov))
    shutil.rmtree(out, ignore_errors=True)
    lines = [l.strip() for l in p.stdout.splitlines() if l.strip().startswith(('FAIL', 'ANALYSIS-ERROR', 'VIOLATION'))]
    return pid, p.returncode, lines


def evaluate(rid: str) -> dict:
    d = os.path.join(RD, rid)
    m = json.load(open(os.path.join(d, 'meta.json')))
    pids = [c['property_id'] for c in json.load(open(os.path.join(VERIF, 'MANIFEST.json')))['checks']]
    ov = build_overlay(os.path.join(d, 'patch.diff'))
    res = {}
    try:
        with concurrent.futures.ThreadPoolExecutor(12) as ex:
            for pid, rc, lines in ex.map(lambda p: run_one(p, ov), pids):
                res[pid] = (rc, lines)
    finally:
        shutil.rmtree(ov, ignore_errors=True)
    m['false_alarms'] = sorted(p for p, (rc, _) in res.items() if rc == 1)
    m['declined'] = sorted(p for p, (rc, _) in res.items() if rc == 2)
    m['checks_output'] = [f'[{p}] {l[:400]}' for p in m['false_alarms'] + m['declined'] for l in res[p][1][:4]]
    json.dump(m, open(os.path.join(d, 'meta.json'), 'w'), indent=1)
    return m


def main(argv):
    if argv[1] == '--reeval':
        ids = argv[2:] or sorted(os.listdir(RD))
        for rid in ids:
            m = evaluate(rid)
            print(f"{rid}: {'FALSE-ALARM ' + ','.join(m['false_alarms']) if m['false_alarms'] else ('declined ' + ','.join(m['declined']) if m['declined'] else 'silent')}")
        return 0
    src, rid, pid = os.path.abspath(argv[1]), argv[2], argv[3].upper()
    patch = os.path.join(src, 'patch.diff')
    meta = {'refactor_id': rid, 'property': pid, 'source': 'independent sub-agent given only the property text and a scratch worktree; asked for a behaviour-preserving refactor'}
    wt = tempfile.mkdtemp(prefix='refacverify_')
    os.rmdir(wt)
    r = sh('git', '-C', REPO, 'worktree', 'add', '--detach', wt, 'HEAD')
    if r.returncode != 0:
        print(r.stderr)
        return 2
    ok = True
    try:
        chk = os.path.join(src, 'check.py')
        has = os.path.exists(chk)
        if has:
            b = sh(PY, chk, wt, timeout=600)
            meta['check_without_exit'] = b.returncode
            ok = ok and b.returncode == 0
        a = sh('git', '-C', wt, 'apply', patch)
        meta['patch_applies'] = a.returncode == 0
        if a.returncode != 0:
            print('patch does not apply:', a.stderr[:300])
            return 2
        changed = re.findall(r'^\+\+\+ b/(.+)$', open(patch).read(), re.M)
        meta['files_changed'] = changed
        meta['py_compile_ok'] = all(sh(PY, '-m', 'py_compile', os.path.join(wt, f)).returncode == 0 for f in changed if f.endswith('.py'))
        t = sh(PY, '-m', 'pytest', '-q', '-p', 'no:cacheprovider', 'auth/test/test_auth_utils.py', cwd=wt)
        mm = re.search(r'(\d+) passed', t.stdout)
        meta['pinned_tests_with_change'] = t.stdout.strip().splitlines()[-1] if t.stdout.strip() else t.stderr[-200:]
        ok = ok and meta['py_compile_ok'] and mm is not None and int(mm.group(1)) == 63 and 'failed' not in t.stdout
        if has:
            w = sh(PY, chk, wt, timeout=600)
            meta['check_with_exit'] = w.returncode
            meta['check_with_tail'] = (w.stdout + w.stderr)[-300:]
            ok = ok and w.returncode == 0
    finally:
        sh('git', '-C', REPO, 'worktree', 'remove', '--force', wt)
        shutil.rmtree(wt, ignore_errors=True)
    meta['confirmed'] = bool(ok)
    dst = os.path.join(RD, rid)
    os.makedirs(dst, exist_ok=True)
    for f in os.listdir(src):
        if os.path.isfile(os.path.join(src, f)) and f != 'TASK.txt':
            shutil.copy(os.path.join(src, f), os.path.join(dst, f))
    json.dump(meta, open(os.path.join(dst, 'meta.json'), 'w'), indent=1)
    m = evaluate(rid)
    print(f"{rid}: confirmed={m['confirmed']} false_alarms={m['false_alarms']} declined={m['declined']}")
    for l in m['checks_output'][:8]:
        print('   ', l[:300])
    return 0


if __name__ == '__main__':
    sys.exit(main(sys.argv))
