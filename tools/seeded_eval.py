#!/venv/bin/python
"""Run the registered quick checks against a seeded change.

usage: tools/seeded_eval.py <seeded dir with patch.diff> [Cxx ...]      (default: all claimed properties)

Applies the patch to /repo (git apply), runs the checks with evidence/replay redirected to a scratch directory, and always
restores /repo (git checkout + removal of files the patch added).  Prints one line per check that does not exit 0.
"""
import json
import os
import re
import shutil
import subprocess
import sys
import tempfile

VERIF = os.path.dirname(os.path.dirname(os.path.abspath(__file__)))
REPO = '/repo'


def sh(*a, **kw):
    return subprocess.run(a, capture_output=True, text=True, **kw)


def main(argv):
    d = os.path.abspath(argv[1])
    patch = os.path.join(d, 'patch.diff')
    pids = [a.upper() for a in argv[2:]]
    if not pids:
        m = json.load(open(os.path.join(VERIF, 'MANIFEST.json')))
        pids = [c['property_id'] for c in m['checks']]
    st = sh('git', '-C', REPO, 'status', '--porcelain')
    if st.stdout.strip():
        print('refusing: /repo is not clean\n' + st.stdout)
        return 2
    added = re.findall(r'^\+\+\+ b/(.+)$', open(patch).read(), re.M)
    chk = sh('git', '-C', REPO, 'apply', '--check', patch)
    if chk.returncode != 0:
        print('patch does not apply:', chk.stderr[:500])
        return 2
    sh('git', '-C', REPO, 'apply', patch)
    results = {}
    try:
        for pid in pids:
            # evidence/replay of this run go to a scratch overlay directory (an empty overlay shadows nothing)
            tmp = tempfile.mkdtemp(prefix='verif_seed_')
            env = dict(os.environ, VERIF_OVERLAY=tmp)
            p = sh('/venv/bin/python', os.path.join(VERIF, 'check.py'), pid, cwd=VERIF, env=env)
            shutil.rmtree(tmp, ignore_errors=True)
            results[pid] = (p.returncode, [l.strip() for l in p.stdout.splitlines() if l.strip().startswith(('FAIL', 'ANALYSIS-ERROR', 'VIOLATION'))])
    finally:
        sh('git', '-C', REPO, 'checkout', '--', '.')
        new = sh('git', '-C', REPO, 'status', '--porcelain').stdout
        for line in new.splitlines():
            if line.startswith('?? '):
                path = os.path.join(REPO, line[3:])
                if os.path.isdir(path):
                    shutil.rmtree(path)
                else:
                    os.remove(path)
    caught = [p for p, (rc, _) in results.items() if rc == 1]
    declined = [p for p, (rc, _) in results.items() if rc == 2]
    print(f'seeded change {d}: caught by {caught or "NONE"}; declined (exit 2) by {declined or "none"}')
    for p in caught + declined:
        for l in results[p][1][:6]:
            print(f'  [{p}] {l[:400]}')
    return 0


if __name__ == '__main__':
    sys.exit(main(sys.argv))
