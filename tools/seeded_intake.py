#!/venv/bin/python
"""Confirm a candidate seeded change and file it under /verif/seeded/<id>/.

usage: tools/seeded_intake.py <candidate dir (patch.diff, demo.py|demo.md, notes.md)> <seed id, e.g. C16-A> <property id>

Steps (all in a scratch git worktree of /repo under /tmp, removed afterwards):
  1. the patch applies to /repo HEAD; changed Python files byte-compile
  2. the pinned suite still passes with the change
  3. demo.py exits 0 without the change and non-zero with it (demo.md: recorded as not executable offline)
Then the registered quick checks are run against the change applied to /repo itself (tools/seeded_eval.py logic) and the result is
recorded in meta.json.
"""
import json
import os
import re
import shutil
import subprocess
import sys
import tempfile

VERIF = os.path.dirname(os.path.dirname(os.path.abspath(__file__)))
REPO = '/repo'
PY = '/venv/bin/python'


def sh(*a, **kw):
    return subprocess.run(a, capture_output=True, text=True, **kw)


def main(argv):
    src, sid, pid = os.path.abspath(argv[1]), argv[2], argv[3].upper()
    patch = os.path.join(src, 'patch.diff')
    meta = {'seed_id': sid, 'property': pid, 'source': 'independent sub-agent given only the property text and a scratch worktree'}
    wt = tempfile.mkdtemp(prefix='seedverify_')
    os.rmdir(wt)
    r = sh('git', '-C', REPO, 'worktree', 'add', '--detach', wt, 'HEAD')
    if r.returncode != 0:
        print(r.stderr)
        return 2
    ok = True
    try:
        demo = os.path.join(src, 'demo.py')
        has_demo = os.path.exists(demo)
        if has_demo:
            base = sh(PY, demo, wt, timeout=300)
            meta['demo_without_change_exit'] = base.returncode
            ok = ok and base.returncode == 0
        a = sh('git', '-C', wt, 'apply', patch)
        meta['patch_applies'] = a.returncode == 0
        if a.returncode != 0:
            print('patch does not apply:', a.stderr[:400])
            return 2
        changed = re.findall(r'^\+\+\+ b/(.+)$', open(patch).read(), re.M)
        meta['files_changed'] = changed
        comp = [sh(PY, '-m', 'py_compile', os.path.join(wt, f)).returncode for f in changed if f.endswith('.py')]
        meta['py_compile_ok'] = all(c == 0 for c in comp)
        t = sh(PY, '-m', 'pytest', '-q', '-p', 'no:cacheprovider', 'auth/test/test_auth_utils.py', cwd=wt)
        m = re.search(r'(\d+) passed', t.stdout)
        meta['pinned_tests_with_change'] = t.stdout.strip().splitlines()[-1] if t.stdout.strip() else t.stderr[-200:]
        ok = ok and meta['py_compile_ok'] and m is not None and int(m.group(1)) == 63 and 'failed' not in t.stdout
        if has_demo:
            w = sh(PY, demo, wt, timeout=300)
            meta['demo_with_change_exit'] = w.returncode
            meta['demo_with_change_tail'] = (w.stdout + w.stderr)[-600:]
            ok = ok and w.returncode != 0
        else:
            meta['demo'] = 'demo.md only: not executable offline (no MySQL / service runtime); confirmed by reading'
    finally:
        sh('git', '-C', REPO, 'worktree', 'remove', '--force', wt)
        shutil.rmtree(wt, ignore_errors=True)
    meta['confirmed'] = bool(ok)
    # our checks are run below through an overlay (tools/seeded_reeval.py): /repo itself is never patched
    meta['checks_output'] = []
    meta['caught_by'] = []
    meta['caught_by_own_property'] = False
    dst = os.path.join(VERIF, 'seeded', sid)
    os.makedirs(dst, exist_ok=True)
    if os.path.abspath(src) != os.path.abspath(dst):
        for f in os.listdir(src):
            if os.path.isfile(os.path.join(src, f)):
                shutil.copy(os.path.join(src, f), os.path.join(dst, f))
    notes = os.path.join(src, 'notes.md')
    if os.path.exists(notes):
        meta['needs_to_manifest'] = 'see notes.md'
    meta['what_was_run'] = ['git apply in a scratch worktree', 'py_compile of changed files', 'pytest auth/test/test_auth_utils.py (63 pinned tests)',
                            'demo.py <worktree> without and with the change' if has_demo else 'demo.md read', 'tools/seeded_reeval.py (all registered quick checks against an overlay of /repo with the patch applied; /repo untouched)']
    json.dump(meta, open(os.path.join(dst, 'meta.json'), 'w'), indent=1)
    sh(PY, os.path.join(VERIF, 'tools', 'seeded_reeval.py'), sid)
    meta = json.load(open(os.path.join(dst, 'meta.json')))
    print(f"{sid}: confirmed={meta['confirmed']} caught_by={meta['caught_by']} own={meta['caught_by_own_property']}")
    for l in meta['checks_output'][1:8]:
        print('   ', l[:300])
    return 0


if __name__ == '__main__':
    sys.exit(main(sys.argv))
