#!/venv/bin/python
"""Re-run every registered quick check against every seeded change, in parallel, WITHOUT touching /repo.

usage: tools/seeded_reeval.py [seed-id ...]          (default: all of /verif/seeded)

For each seed the patch is applied to a scratch `git worktree`-free copy: only the files the patch names are copied from /repo into
an overlay directory (/tmp/verif_reeval_*/tree/...), `git apply --directory`-style via `patch -p1`-equivalent (`git apply --unsafe-paths`
inside the overlay), and the checks run with VERIF_OVERLAY pointing at it (the mechanism selftest/run.py uses).  meta.json of the seed
is updated (caught_by, caught_by_own_property, checks_output); the confirmation fields written by seeded_intake.py are kept.
"""
import concurrent.futures
import json
import os
import re
import shutil
import subprocess
import sys
import tempfile

VERIF = os.path.dirname(os.path.dirname(os.path.abspath(__file__)))
REPO = '/repo'
SD = os.path.join(VERIF, 'seeded')


def sh(*a, **kw):
    return subprocess.run(a, capture_output=True, text=True, **kw)


def build_overlay(seed: str) -> str:
    patch = os.path.join(SD, seed, 'patch.diff')
    text = open(patch).read()
    files = sorted(set(re.findall(r'^(?:---|\+\+\+) [ab]/(.+)$', text, re.M)))
    tmp = tempfile.mkdtemp(prefix='verif_reeval_')
    tree = os.path.join(tmp, 'tree')
    os.makedirs(tree)
    for f in files:
        src = os.path.join(REPO, f)
        if os.path.exists(src):
            dst = os.path.join(tree, f)
            os.makedirs(os.path.dirname(dst), exist_ok=True)
            shutil.copy(src, dst)
    r = sh('git', 'apply', '--unsafe-paths', '--directory', tree, patch, cwd='/')
    if r.returncode != 0:
        # fall back: apply relative to the overlay tree
        r = sh('git', 'apply', patch, cwd=tree)
    if r.returncode != 0:
        shutil.rmtree(tmp, ignore_errors=True)
        raise RuntimeError(f'{seed}: patch does not apply to the overlay: {r.stderr[:300]}')
    return tmp


def run_one(seed: str, pid: str, overlay: str):
    out = tempfile.mkdtemp(prefix='verif_reeval_out_')
    # evidence/replay go to the overlay dir itself (checks write under OVERLAY); use a per-check copy of the tree via symlink
    ov = os.path.join(out, 'ov')
    os.makedirs(ov)
    os.symlink(os.path.join(overlay, 'tree'), os.path.join(ov, 'tree'))
    p = sh('/venv/bin/python', os.path.join(VERIF, 'check.py'), pid, cwd=VERIF, env=dict(os.environ, VERIF_OVERLAY=ov))
    shutil.rmtree(out, ignore_errors=True)
    lines = [l.strip() for l in p.stdout.splitlines() if l.strip().startswith(('FAIL', 'ANALYSIS-ERROR', 'VIOLATION'))]
    return seed, pid, p.returncode, lines


def main(argv):
    seeds = argv[1:] or sorted(d for d in os.listdir(SD) if os.path.isdir(os.path.join(SD, d)))
    pids = [c['property_id'] for c in json.load(open(os.path.join(VERIF, 'MANIFEST.json')))['checks']]
    overlays = {}
    for s in seeds:
        try:
            overlays[s] = build_overlay(s)
        except RuntimeError as e:
            print(e)
    results = {s: {} for s in overlays}
    try:
        with concurrent.futures.ThreadPoolExecutor(16) as ex:
            futs = [ex.submit(run_one, s, p, ov) for s, ov in overlays.items() for p in pids]
            for f in concurrent.futures.as_completed(futs):
                s, p, rc, lines = f.result()
                results[s][p] = (rc, lines)
    finally:
        for ov in overlays.values():
            shutil.rmtree(ov, ignore_errors=True)
    for s in sorted(results):
        mp = os.path.join(SD, s, 'meta.json')
        m = json.load(open(mp))
        caught = sorted(p for p, (rc, _) in results[s].items() if rc == 1)
        declined = sorted(p for p, (rc, _) in results[s].items() if rc == 2)
        out = [f'seeded change {os.path.join(SD, s)}: caught by {caught or "NONE"}; declined (exit 2) by {declined or "none"}']
        for p in caught + declined:
            for l in results[s][p][1][:6]:
                out.append(f'  [{p}] {l[:400]}')
        m['checks_output'] = out
        m['caught_by'] = caught
        m['caught_by_own_property'] = m['property'] in caught
        json.dump(m, open(mp, 'w'), indent=1)
        own = 'own' if m['caught_by_own_property'] else ('other:' + ','.join(caught) if caught else ('declined:' + ','.join(declined) if m['property'] in declined else ('declined-elsewhere' if declined else 'MISSED')))
        print(f'{s}: {own}')
    return 0


if __name__ == '__main__':
    sys.exit(main(sys.argv))
