#!/venv/bin/python
"""Re-evaluate every seeded change under /verif/seeded and print the catch table (markdown).   usage: tools/seeded_summary.py [--reeval]"""
import json, os, subprocess, sys
VERIF = os.path.dirname(os.path.dirname(os.path.abspath(__file__)))
sd = os.path.join(VERIF, 'seeded')
ids = sorted(d for d in os.listdir(sd) if os.path.isdir(os.path.join(sd, d)))
if '--reeval' in sys.argv:
    for i in ids:
        m = json.load(open(os.path.join(sd, i, 'meta.json')))
        subprocess.run(['/venv/bin/python', os.path.join(VERIF, 'tools', 'seeded_intake.py'), os.path.join(sd, i), i, m['property']], capture_output=True)
rows = []
own = other = declined = sup = 0
for i in ids:
    m = json.load(open(os.path.join(sd, i, 'meta.json')))
    first = m.get('checks_output', [''])[0]
    dec = first.split('declined (exit 2) by ')[-1] if 'declined' in first else ''
    status = 'superseded' if m.get('superseded') and not m['caught_by'] else 'own check' if m['caught_by_own_property'] else ('other check' if m['caught_by'] else ('declined' if dec and dec != 'none' else 'MISSED'))
    own += status == 'own check'; other += status == 'other check'; declined += status == 'declined'; sup += status == 'superseded'
    rule = ''
    for l in m.get('checks_output', [])[1:]:
        if 'FAIL' in l:
            rule = l.split('FAIL ')[1].split(' ')[0]; break
    rows.append(f"| {i} | {m['property']} | {'yes' if m['confirmed'] else 'NO'} | {status} | {', '.join(m['caught_by']) or '-'} {rule} | {dec if dec != 'none' else ''} |")
print('| seed | property | confirmed | result | caught by (first rule) | declined by |\n|---|---|---|---|---|---|')
print('\n'.join(rows))
print(f'\n{len(ids)} seeded changes: {own} caught by the property\'s own check, {other} only by another property\'s check, {declined} declined (exit 2, no alarm), {len(ids)-own-other-declined-sup} missed, {sup} superseded by a /repo repair (no longer breaks the property).')
