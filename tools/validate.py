#!/usr/local/bin/python3-vt
"""Validate MANIFEST.json and every evidence file against the harness schemas (dev helper; needs jsonschema from the tooling venv)."""
import json, glob, sys
import jsonschema
m = json.load(open('/verif/MANIFEST.json'))
jsonschema.validate(m, json.load(open('/root/.vp/MANIFEST.schema.json')))
es = json.load(open('/root/.vp/EVIDENCE.schema.json'))
bad = 0
for c in m['checks']:
    try:
        e = json.load(open(c['evidence_file']))
        jsonschema.validate(e, es)
        if e['level'] != c['level_claimed']['category']:
            print('LEVEL MISMATCH', c['property_id'], e['level'], c['level_claimed']['category']); bad += 1
        if e['level'] == 'proof' and e['coverage']['obligations'] != e['coverage']['discharged']:
            print('PROOF NOT FULLY DISCHARGED', c['property_id']); bad += 1
    except Exception as ex:
        print('BAD', c['property_id'], str(ex)[:300]); bad += 1
print('validated', len(m['checks']), 'checks;', bad, 'problems')
sys.exit(1 if bad else 0)
